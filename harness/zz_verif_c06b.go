//go:build verif

package zygo

// vh_C06_spacing: an infix expression means the same with and without blanks
// around its operators.  A op B is written four ways (blanks on both sides,
// left only, right only, none) with A in {a literal, a
// variable, an indexed element, a parenthesised call}, every binary operator,
// and B in {literal, negative literal, variable}; the expansion of every
// variant equals the expansion of the fully spaced one - except where the
// operator and the first character of B together spell a longer operator
// (-- <- and the like: maximal munch), about which nothing is asserted.
var vC06SpacingOps = []string{"+", "-", "*", "/", "<", ">", "<=", ">=", "==", "!=", "**"}

// operator spellings known to the lexer: op+next spelling one of these (or a
// prefix of one) is a different token sequence
var vC06LongOps = []string{"--", "++", "<-", "+=", "-=", "<=", ">=", "==", "!=", "**", ":=", "//", "/*", "*/"}

func vC06Fuses(op string, next byte) bool {
	s := op + string(next)
	for _, l := range vC06LongOps {
		if len(l) >= len(s) && l[:len(s)] == s {
			return true
		}
	}
	// the tail of the operator together with next may also start a token (e.g. <= followed by = )
	for i := 1; i < len(op); i++ {
		t := op[i:] + string(next)
		for _, l := range vC06LongOps {
			if l == t {
				return true
			}
		}
	}
	return false
}

func vh_C06_spacing() {
	vFormatOpaque(true)
	env := vStdEnvs(1)[0]
	for _, f := range vT(env, `(def x 7) (def y 3) (def arr [10 20 30])`) {
		if _, err, p := vEval(env, f); err != nil || p {
			vAssert(false, "spacing-setup")
			return
		}
	}
	ds := []string{"4", "7"}[vChoice("digit", 2)]
	as := []string{"1" + ds, "x", "arr[1]", "(+ 1 " + ds + ")", "0xfe", "0x1E", "2e3", "1.5"}
	bs := []string{ds, "-" + ds, "y", "-" + ds + ".5"}
	a := as[vChoice("a", len(as))]
	b := bs[vChoice("b", len(bs))]
	op := vC06SpacingOps[vChoice("op", len(vC06SpacingOps))]
	var text string
	var spaced string
	spacingLeftOnly := false
	if vChoice("arity", 2) == 0 {
		spaced = a + " " + op + " " + b
		spacingLeftOnly = false
		switch vChoice("spacing", 3) {
		case 0:
			text = a + op + b
		case 1:
			spacingLeftOnly = true
			text = a + " " + op + b
		default:
			text = a + op + " " + b
		}
		if vC06Fuses(op, b[0]) {
			vDone()
		}
		if spacingLeftOnly && (op == "-" || op == "+") && b[0] >= '0' && b[0] <= '9' {
			vDone() // "a -4": a blank before and none after makes the sign part of the literal
		}
	} else {
		// three operands: A op B op2 C, no blanks at all
		ops2 := []string{"+", "-", "/", "<"}
		op2 := ops2[vChoice("op2", len(ops2))]
		c := bs[vChoice("c", 2)]
		spaced = a + " " + op + " " + b + " " + op2 + " " + c
		text = a + op + b + op2 + c
		if vC06Fuses(op, b[0]) || vC06Fuses(op2, c[0]) {
			vDone()
		}
	}
	want, errW, pW := vEvalString(env, "(infixExpand {"+spaced+"})")
	got, errG, pG := vEvalString(env, "(infixExpand {"+text+"})")
	vAssert(!pW && !pG, "spacing-no-panic")
	if pW || pG {
		return
	}
	vAssert(errW == nil, "spaced-form-expands")
	if errW != nil {
		return
	}
	vAssert(errG == nil, "unspaced-form-expands")
	if errG != nil {
		return
	}
	vAssert(vSexpEq(want, got), "expansion-independent-of-blanks-around-operators")
	// and the value
	v1, e1, p1 := vEvalString(env, "{"+spaced+"}")
	v2, e2, p2 := vEvalString(env, "{"+text+"}")
	vAssert(!p1 && !p2 && (e1 == nil) == (e2 == nil), "spacing-same-errorness")
	if !p1 && !p2 && e1 == nil && e2 == nil {
		vAssert(vSexpEq(v1, v2), "value-independent-of-blanks-around-operators")
	}
	vReach("spacing")
}
