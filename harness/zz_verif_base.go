//go:build verif

package zygo

// Harness intrinsics.  Under gosym these functions are intercepted by name
// (their bodies are never executed): vInt64 & co. return fresh SMT
// variables, vChoice forks the path, vAssume/vAssert talk to the solver.
// Natively (go test -tags verif -overlay ...) they read the solver's model
// from the JSON file named by VERIF_REPLAY, so that a counterexample is
// replayed against the real build.

import (
	"encoding/json"
	"fmt"
	"math"
	"os"
	"reflect"
	"unsafe"
)

type vReplayFile struct {
	Harness string            `json:"harness"`
	Values  map[string]uint64 `json:"values"`
}

type vAssumeFailed struct{}
type vDoneSignal struct{}

var (
	vModel    map[string]uint64
	vNameCnt  map[string]int
	vObserved []string
	vFailed   []string
	vReached  []string
)

func vLoadReplay(path string) (string, error) {
	b, err := os.ReadFile(path)
	if err != nil {
		return "", err
	}
	var rf vReplayFile
	if err := json.Unmarshal(b, &rf); err != nil {
		return "", err
	}
	vResetReplay(rf.Values)
	return rf.Harness, nil
}

func vResetReplay(values map[string]uint64) {
	vModel = values
	vNameCnt = map[string]int{}
	vObserved = nil
	vFailed = nil
	vReached = nil
}

func vName(name string) string {
	c := vNameCnt[name]
	vNameCnt[name] = c + 1
	if c > 0 {
		return fmt.Sprintf("%s#%d", name, c)
	}
	return name
}

func vSymbolic() bool             { return false }
func vInt64(name string) int64    { return int64(vModel[vName(name)]) }
func vInt(name string) int        { return int(vModel[vName(name)]) }
func vUint64(name string) uint64  { return vModel[vName(name)] }
func vInt32(name string) int32    { return int32(vModel[vName(name)]) }
func vUint32(name string) uint32  { return uint32(vModel[vName(name)]) }
func vUint8(name string) uint8    { return uint8(vModel[vName(name)]) }
func vBool(name string) bool      { return vModel[vName(name)] != 0 }
func vFloat64(name string) float64 { return math.Float64frombits(vModel[vName(name)]) }

func vChoice(name string, n int) int {
	c := vNameCnt["choice:"+name]
	vNameCnt["choice:"+name] = c + 1
	if c > 0 {
		name = fmt.Sprintf("%s#%d", name, c)
	}
	if n <= 1 {
		return 0
	}
	return int(vModel["choice:"+name])
}

func vAssume(c bool) {
	if !c {
		panic(vAssumeFailed{})
	}
}

func vAssert(c bool, label string) {
	if !c {
		vFailed = append(vFailed, label)
	}
}

func vReach(label string) { vReached = append(vReached, label) }

// vReachIdx records that entry k of an n-entry table was carried to the end
// of the harness; ./check requires every index 0..n-1 to be reached on some
// path (a table entry that never finishes is reported as vacuous, exit 2).
func vReachIdx(prefix string, k, n int) {
	vReach(fmt.Sprintf("%s:n=%d", prefix, n))
	vReach(fmt.Sprintf("%s:%d", prefix, k))
}

func vObserve(name string, v interface{}) {
	vObserved = append(vObserved, name+"="+vFmt(v))
}

func vFmt(v interface{}) string {
	if v == nil {
		return "<nil>"
	}
	return fmt.Sprintf("%v", v)
}

func vString(name string, n int) string {
	b := make([]byte, n)
	for i := 0; i < n; i++ {
		b[i] = vUint8(fmt.Sprintf("%s[%d]", name, i))
	}
	return string(b)
}

func vBytes(name string, n int) []byte { return []byte(vString(name, n)) }

func vDone() { panic(vDoneSignal{}) }

// vMapOrder switches the engine's nondeterministic map-order mode
// (range over a Go map visits a solver/case-split chosen permutation for
// maps of at most max entries).  Natively a no-op.
func vMapOrder(on bool, max int) {}

// vEffects returns the OS-boundary effects recorded by the engine.
func vEffects() []string { return nil }

func vIsConcrete(v interface{}) bool { return true }

func vSetStepBudget(n int) {}

// vTier is 0 in the quick tier and 1 in the thorough tier.
func vTier() int {
	if os.Getenv("VERIF_TIER") == "thorough" {
		return 1
	}
	return 0
}

// ---- helpers shared by harnesses ----

// vForm builds the list (head args...) with head a symbol.
func vForm(env *Zlisp, head string, args ...Sexp) Sexp {
	return MakeList(append([]Sexp{env.MakeSymbol(head)}, args...))
}

// vEval evaluates one form through the real generator and VM.  An escaping
// Go panic is turned into (nil, nil, true).
func vEval(env *Zlisp, form Sexp) (res Sexp, err error, panicked bool) {
	defer func() {
		if r := recover(); r != nil {
			switch r.(type) {
			case vAssumeFailed, vDoneSignal:
				panic(r)
			}
			panicked = true
		}
	}()
	res, err = env.EvalExpressions([]Sexp{form})
	return
}

// vCall calls the builtin bound to name with args, the way the VM would
// (a Go panic inside the builtin becomes an error, as CallUserFunction's
// recover makes it).
func vCall(env *Zlisp, name string, args ...Sexp) (res Sexp, err error) {
	obj, found := env.FindObject(name)
	if !found {
		return SexpNull, fmt.Errorf("verif: %s not bound", name)
	}
	f, isF := obj.(*SexpFunction)
	if !isF || !f.user {
		return SexpNull, fmt.Errorf("verif: %s is not a builtin", name)
	}
	defer func() {
		if r := recover(); r != nil {
			switch r.(type) {
			case vAssumeFailed, vDoneSignal:
				panic(r)
			}
			res, err = SexpNull, fmt.Errorf("verif: builtin %s panicked", name)
		}
	}()
	return f.userfun(env, name, args)
}

// vFormatOpaque(true): from here on, decimal/float formatting of a
// *symbolic* number (strconv.Itoa/FormatInt/FormatFloat...) yields a fixed
// placeholder instead of forking on the number of digits.  Used by harnesses
// whose assertions never depend on message text.  Natively a no-op.
func vFormatOpaque(on bool) {}

// vBudgetOK declares that running out of the engine's step budget on this
// path is acceptable (the program under test legitimately does not
// terminate); without it a budget hit makes the check fail.
func vBudgetOK() {}

// vHavoc makes every scalar leaf reachable from *ptr through struct fields
// and array elements arbitrary (strings: length 0..maxStr, arbitrary
// bytes); pointers, slices, maps, interfaces and funcs are left as they
// are.  Natively the leaves are filled from the replay model by field path.
func vHavoc(name string, ptr interface{}, maxStr int) {
	vHavocWalk(name, reflect.ValueOf(ptr).Elem(), maxStr)
}

func vHavocWalk(path string, v reflect.Value, maxStr int) {
	if !v.CanSet() && v.CanAddr() {
		v = reflect.NewAt(v.Type(), unsafe.Pointer(v.UnsafeAddr())).Elem()
	}
	switch v.Kind() {
	case reflect.Bool:
		v.SetBool(vModel[vName(path)] != 0)
	case reflect.Int, reflect.Int8, reflect.Int16, reflect.Int32, reflect.Int64:
		v.SetInt(int64(vModel[vName(path)]))
	case reflect.Uint, reflect.Uint8, reflect.Uint16, reflect.Uint32, reflect.Uint64, reflect.Uintptr:
		v.SetUint(vModel[vName(path)])
	case reflect.String:
		n := int(vModel["choice:"+path+".len"])
		b := make([]byte, n)
		for i := range b {
			b[i] = byte(vModel[vName(fmt.Sprintf("%s[%d]", path, i))])
		}
		v.SetString(string(b))
	case reflect.Struct:
		for i := 0; i < v.NumField(); i++ {
			vHavocWalk(path+"."+v.Type().Field(i).Name, v.Field(i), maxStr)
		}
	case reflect.Array:
		for i := 0; i < v.Len(); i++ {
			vHavocWalk(fmt.Sprintf("%s[%d]", path, i), v.Index(i), maxStr)
		}
	case reflect.Slice:
		if !vHavocable(v.Type().Elem()) {
			return
		}
		n := int(vModel["choice:"+path+".len"])
		sl := reflect.MakeSlice(v.Type(), n, n)
		for i := 0; i < n; i++ {
			vHavocWalk(fmt.Sprintf("%s[%d]", path, i), sl.Index(i), maxStr)
		}
		v.Set(sl)
	}
}

func vHavocable(t reflect.Type) bool {
	switch t.Kind() {
	case reflect.Bool, reflect.Int, reflect.Int8, reflect.Int16, reflect.Int32, reflect.Int64,
		reflect.Uint, reflect.Uint8, reflect.Uint16, reflect.Uint32, reflect.Uint64, reflect.Uintptr, reflect.String:
		return true
	case reflect.Struct:
		for i := 0; i < t.NumField(); i++ {
			if !vHavocable(t.Field(i).Type) {
				return false
			}
		}
		return true
	case reflect.Array:
		return vHavocable(t.Elem())
	}
	return false
}

// vSetupOnce runs f once per engine worker outside the path journal (the
// state it builds is reused by every path; what a path does to it is undone
// at the end of the path).  Natively f runs every time.
func vSetupOnce(key string, f func()) { f() }

// The repository's test binary registers the demo structs in an init function
// of callgo_test.go; the engine executes the package without its test files.
// Registering them here gives both the same type registry (native replays and
// sampled-path validation compare like with like), and lets the corpus
// scripts that use snoopy, hornet, ... run under the engine.
func init() { RegisterDemoStructs() }

var vEnvPool [4]*Zlisp

// vEnvs returns n fresh-looking sandboxed interpreters built once per worker.
func vEnvs(n int) []*Zlisp {
	vSetupOnce("envpool", func() {
		for i := range vEnvPool {
			vEnvPool[i] = NewZlispSandbox()
		}
	})
	return vEnvPool[:n]
}

var vStdEnvPool [2]*Zlisp

// vStdEnvs returns sandboxed interpreters with StandardSetup applied (the
// configuration cmd/zygo uses under -sandbox), built once per worker.
func vStdEnvs(n int) []*Zlisp {
	vSetupOnce("stdenvpool", func() {
		for i := range vStdEnvPool {
			vStdEnvPool[i] = NewZlispSandbox()
			vStdEnvPool[i].StandardSetup()
			vStdEnvPool[i].AddFunction("t", vTraceFunction)
		}
	})
	vTraceLog = nil
	vTraceCalls = 0
	vFailPlan = nil
	return vStdEnvPool[:n]
}

// vPickString chooses one of options (a case split under the engine).  The
// chosen string itself is part of the replay model, so a native replay picks
// the same string even if its option list is ordered differently.
func vPickString(key string, options []string) string {
	n := int(vModel[key+".len"])
	b := make([]byte, n)
	for i := range b {
		b[i] = byte(vModel[fmt.Sprintf("%s[%d]", key, i)])
	}
	s := string(b)
	for _, o := range options {
		if o == s {
			return s
		}
	}
	panic(vAssumeFailed{})
}

// vBudgetFails(label): from here on, running out of the engine's step budget
// on this path is a violation with that label - used where the program under
// test is known to need only a bounded number of steps, so "did not return"
// is the defect.  Natively a no-op: a replay that does not return within the
// native time limit reproduces it.  vBudgetFails("") switches it off.
func vBudgetFails(label string) {}
