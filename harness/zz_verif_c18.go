//go:build verif

package zygo

// C18 — package members are private unless capitalised.

import "unicode"

// vC18Name builds a member name whose first rune is symbolic; the unusual
// tail keeps it apart from every name already interned.
func vC18Name(tag string) (string, rune) {
	r := rune(vInt32(tag))
	vAssume(vValidRune(r) && r > ' ' && r != '.' && r != 0x7f)
	if vTier() == 0 {
		vAssume(r < 0x250)
	} else {
		vAssume(r < 0x3000)
	}
	return string(r) + "zqmemb" + tag, r
}

// vC18Expect: 1 granted, -1 denied, 0 unspecified by the statement.
func vC18Expect(r rune) int {
	switch {
	case unicode.IsUpper(r):
		return 1
	case unicode.IsLower(r):
		return -1
	}
	return 0
}

// vh_C18_walk: packages nested to depth 2 built by the real package form;
// the member's first rune is symbolic over the stated range; get and set
// routes through the real path walker from outside the package.
func vh_C18_walk() {
	vFormatOpaque(true)
	env := vStdEnvs(1)[0]
	s := func(n string) Sexp { return vS(env, n) }
	name, r := vC18Name("m")
	innerName := []string{"inner", "Inner"}[vChoice("innercase", 2)]
	val := vSmallInt("val")
	kind := vChoice("kind", 4)
	var member Sexp
	switch kind {
	case 0:
		member = vL(s("def"), s(name), val)
	case 1:
		member = vL(s("defn"), s(name), vA(env), val)
	case 2:
		member = vL(s("def"), s(name), vL(s("hash"), vL(s("quote"), s("K")), val))
	default:
		member = vL(s("def"), s(name), vL(s("package"), &SexpStr{S: "leaf"}, vL(s("def"), s("Z"), val)))
	}
	inner := vL(s("package"), &SexpStr{S: "innerpkg"}, member, vL(s("def"), s("Pub"), vI(7)))
	outer := vL(s("def"), s("p"), vL(s("package"), &SexpStr{S: "outerpkg"}, vL(s("def"), s(innerName), inner), member))
	_, err, p := vEval(env, outer)
	if err != nil || p {
		vAssert(false, "package-builds")
		return
	}
	obj, found := env.FindObject("p")
	pkg, isStack := obj.(*Stack)
	if !found || !isStack {
		vAssert(false, "package-is-bound")
		return
	}
	depth := 1 + vChoice("depth", 2)
	var path []string
	if depth == 2 {
		path = []string{"." + innerName, "." + name}
	} else {
		path = []string{"." + name}
	}
	// a member that is a hash: the path may go on into the hash (its field K
	// is capitalised, so access is decided by the member's own name)
	intoHash := kind == 2 && vChoice("intohash", 2) == 1
	if intoHash {
		path = append(path, ".K")
	}
	route := vChoice("route", 2)
	want := vC18Expect(r)
	if kind == 3 && route == 0 {
		want = 1 // nested packages may be traversed/inspected whatever their name
	}
	if want == 0 {
		vDone()
	}
	var got Sexp
	panicked := false
	func() {
		defer func() {
			if rec := recover(); rec != nil {
				switch rec.(type) {
				case vAssumeFailed, vDoneSignal:
					panic(rec)
				}
				panicked = true
			}
		}()
		if route == 0 {
			got, err = pkg.nestedPathGetSet(env, path, nil)
		} else {
			var nv Sexp = &SexpInt{Val: 4242}
			got, err = pkg.nestedPathGetSet(env, path, &nv)
		}
	}()
	vAssert(!panicked, "walk-no-panic")
	if panicked {
		return
	}
	if want == 1 {
		vAssert(err == nil, "public-member-is-accessible")
		if err == nil && route == 0 && (kind == 0 || intoHash) {
			i, isI := got.(*SexpInt)
			vAssert(isI && i.Val == val.(*SexpInt).Val, "public-member-value")
		}
		vReach("granted")
	} else {
		vAssert(err != nil, "private-member-is-denied")
		if route == 1 {
			// a rejected assignment changes nothing: read it from inside
			scope := pkg
			if depth == 2 {
				in, _, _ := pkg.LookupSymbol(env.MakeSymbol(innerName), nil)
				scope, _ = in.(*Stack)
			}
			if scope != nil && kind == 0 {
				cur, lerr, _ := scope.LookupSymbol(env.MakeSymbol(name), nil)
				i, isI := cur.(*SexpInt)
				vAssert(lerr == nil && isI && i.Val == val.(*SexpInt).Val, "denied-assignment-leaves-member-unchanged")
			}
		}
		vReach("denied")
	}
}

// concrete member names, symbolic values: script-level routes
var vC18Programs = []struct {
	src  string
	want int // 1: evaluates to hole 9001; -1: must be an error; 2: evaluates to 9002
}{
	{`(def p (package "pk" (def secret 9001) (def Open 9001))) (+ 0 p.Open)`, 1},
	{`(def p (package "pk" (def secret 9001) (def Open 9001))) (+ 0 p.secret)`, -1},
	{`(def p (package "pk" (def secret 9001) (def Open 9001))) (+ 0 p.secret)`, -1},
	{`(def p (package "pk" (def secret 9001) (def Open 9001))) (set p.secret 9002)`, -1},
	{`(def p (package "pk" (def secret 9001) (def Open 9001))) (def q p) (+ 0 q.secret)`, -1},
	{`(def p (package "pk" (def secret 9001) (def Open 9001))) (def q p) (+ 0 q.Open)`, 1},
	{`(def p (package "pk" (def secret 9001) (defn Reveal [] secret))) (p.Reveal)`, 1},
	{`(def p (package "pk" (def secret 9001) (defn reveal [] secret))) (p.reveal)`, -1},
	{`(def p (package "pk" (def secret 9001) (defn Change [v] (set secret v)) (defn Reveal [] secret))) (p.Change 9002) (p.Reveal)`, 2},
	{`(def o (package "out" (def in (package "inn" (def secret 9001) (def Open 9001))))) (+ 0 o.in.Open)`, 1},
	{`(def o (package "out" (def in (package "inn" (def secret 9001) (def Open 9001))))) (+ 0 o.in.secret)`, -1},
	{`(def o (package "out" (def In (package "inn" (def secret 9001) (def Open 9001))))) (+ 0 o.In.secret)`, -1},
	{`(def o (package "out" (def in (package "inn" (def secret 9001) (def Open 9001))))) (set o.in.secret 9002)`, -1},
	{`(def o (package "out" (def In (package "inn" (def H (hash K: 9001)))))) (+ 0 o.In.H.K)`, 1},
	{`(def o (package "out" (def In (package "inn" (def h (hash K: 9001)))))) (+ 0 o.In.h.K)`, -1},
	{`(def p (package "pk" (def H (hash K: 9001)))) (+ 0 p.H.K)`, 1},
	{`(def p (package "pk" (def h (hash K: 9001)))) (+ 0 p.h.K)`, -1},
	{`(def p (package "pk" (def Open 9001))) (set p.Open 9002) (+ 0 p.Open)`, 2},
	{`(def o (package "out" (def in (package "inn" (def Kit 9001))))) {o.in = (package "evil" (def Kit 9002))}`, -1},
	{`(def o (package "out" (def in (package "inn" (def Kit 9001))))) (set o.in 9002)`, -1},
	{`(def o (package "out" (def In (package "inn" (def Kit 9001))))) (+ 0 o.In.Kit)`, 1},
	// a member name that is also bound in an enclosing package or globally resolves to the member of the package the path names
	{`(def Limit 9002) (def lib (package "lib" (def Limit 9001))) (+ 0 lib.Limit)`, 1},
	{`(def lib (package "lib" (def Limit 9002) (def Sub (package "sub" (def Limit 9001))))) (+ 0 lib.Sub.Limit)`, 1},
	{`(def lib (package "lib" (def Limit 9001) (def Sub (package "sub" (def Limit 9002))))) (+ 0 lib.Limit)`, 1},
	{`(def lib (package "lib" (def Limit 5) (def Sub (package "sub" (def Limit 6) (defn Get [] Limit))))) (set lib.Sub.Limit 9001) (lib.Sub.Get)`, 1},
	{`(def lib (package "lib" (def Limit 9001) (defn Get [] Limit) (def Sub (package "sub" (def Limit 6))))) (set lib.Sub.Limit 7) (lib.Get)`, 1},
	{`(def Level 9001) (def lib (package "lib" (def Level 5))) (set lib.Level 6) (+ 0 Level)`, 1},
	// a granted path may go on through hashes nested inside a public hash member: reads and writes reach the hash the path names
	{`(def p (package "pk" (def H (hash a: (hash b: 5 c: 6) b: 7)))) (set p.H.a.b 9001) (+ 0 p.H.a.b)`, 1},
	{`(def p (package "pk" (def H (hash a: (hash b: 5 c: 6) b: 9001)))) (set p.H.a.b 6) (+ 0 p.H.b)`, 1},
	{`(def p (package "pk" (def H (hash a: (hash b: 5))) (defn Get [] (hget (hget H a:) b:)))) (set p.H.a.b 9001) (p.Get)`, 1},
	{`(def o (package "out" (def In (package "inn" (def Opt (hash a: (hash b: (hash c: 5)))))))) (set o.In.Opt.a.b.c 9001) (+ 0 o.In.Opt.a.b.c)`, 1},
	{`(def o (package "out" (def In (package "inn" (def Opt (hash a: (hash b: 5) b: 9001)))))) {o.In.Opt.a.b = 6} (+ 0 o.In.Opt.b)`, 1},
	{`(def p (package "pk" (def h (hash a: (hash b: 5))))) (set p.h.a.b 9001)`, -1},
	{`(def g (hash a: (hash b: (hash c: 5) c: 9001))) (set g.a.b.c 6) (+ 0 g.a.c)`, 1},
	{`(def g (hash a: (hash b: (hash c: 5)))) (set g.a.b.c 9001) (+ 0 g.a.b.c)`, 1},
}

func vh_C18_programs() {
	vFormatOpaque(true)
	env := vStdEnvs(1)[0]
	k := vChoice("program", len(vC18Programs))
	h1, h2 := vSmallInt("h1"), vSmallInt("h2")
	forms := vT(env, vC18Programs[k].src, h1, h2)
	var res Sexp
	var err error
	for _, f := range forms {
		var p bool
		res, err, p = vEval(env, f)
		vAssert(!p, "program-no-panic")
		if p {
			return
		}
		if err != nil {
			break
		}
	}
	switch vC18Programs[k].want {
	case -1:
		vAssert(err != nil, "private-access-is-an-error")
	case 1:
		vAssert(err == nil, "public-access-succeeds")
		if err == nil {
			vAssert(vSexpEq(res, h1), "public-access-value")
		}
	default:
		vAssert(err == nil, "public-access-succeeds")
		if err == nil {
			vAssert(vSexpEq(res, h2), "public-access-value")
		}
	}
	vReach("programs")
}
