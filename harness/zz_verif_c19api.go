//go:build verif

package zygo

import "fmt"

// vh_C19_growth: family histories through the public API only (MakeSymbol,
// GenSymbol, Duplicate, Clone, Name/Number): besides single interns and
// generated symbols, a member may intern a batch of 400 (thorough also 1500) fresh
// names, so that the shared tables grow past whatever internal size
// thresholds they have while other members hold older views of them.
// After every step: equal names <=> equal numbers over everything interned so
// far by anyone, and every generated symbol is new.
func vh_C19_growth() {
	h := 3
	if vTier() == 1 {
		h = 4
	}
	root := NewZlispSandbox()
	family := []*Zlisp{root}
	byNum := map[int]string{}
	byName := map[string]int{}
	ok := true
	note := func(s *SexpSymbol, mustBeNew bool) {
		name, num := s.Name(), s.Number()
		if prev, seen := byNum[num]; seen && prev != name {
			ok = false
		}
		if prev, seen := byName[name]; seen && prev != num {
			ok = false
		}
		if _, seen := byName[name]; seen && mustBeNew {
			vAssert(false, "generated-symbol-is-new")
		}
		byNum[num] = name
		byName[name] = num
	}
	// what exists before the history starts
	for _, n := range []string{"def", "car", "+", "hash", "x"} {
		note(root.MakeSymbol(n), false)
	}
	batch := 0
	for step := 0; step < h; step++ {
		who := family[vChoice("who", len(family))]
		switch vChoice("op", 5) {
		case 0:
			note(who.MakeSymbol([]string{"pa", "pb", "x", "__gensym5", ""}[vChoice("name", 5)]), false)
		case 1:
			note(who.GenSymbol("__gensym"), true)
		case 2:
			if len(family) < 3 {
				family = append(family, who.Duplicate())
			}
		case 3:
			if len(family) < 3 {
				family = append(family, who.Clone())
			}
		default:
			n := 400
			if vTier() == 1 && vChoice("big", 2) == 1 {
				n = 1500
			}
			batch++
			for i := 0; i < n; i++ {
				note(who.MakeSymbol(fmt.Sprintf("bulk%d_%d", batch, i)), false)
			}
		}
		vAssert(ok, "name-eq-iff-number-eq-across-the-family")
		// interning an existing name again, from every member, gives the same symbol
		for _, m := range family {
			s := m.MakeSymbol("x")
			vAssert(s.Number() == byName["x"], "same-name-same-symbol-in-every-member")
		}
	}
	vReach("growth")
}
