//go:build verif

package zygo

import "math"

// C12 — printed data reads back as the same data.

// vReadOne parses txt and returns its single expression.
func vReadOne(env *Zlisp, txt string) (Sexp, bool) {
	xs, err, panicked := vParse(env, txt)
	if panicked || err != nil || len(xs) != 1 {
		return nil, false
	}
	return xs[0], true
}

func vValidRune(r rune) bool {
	return r >= 0 && r <= 0x10FFFF && !(r >= 0xD800 && r <= 0xDFFF)
}

// vh_C12_char: every character prints to a literal that reads back as the
// same character.
func vh_C12_char() {
	env := vEnvs(1)[0]
	r := rune(vInt32("r"))
	vAssume(vValidRune(r))
	if vTier() == 0 {
		vAssume(r < 0x250) // quick: Latin ranges
	} else {
		vAssume(r < 0x1000) // thorough: through the 3-byte UTF-8 boundary (stated bound)
	}
	v := &SexpChar{Val: r}
	txt := v.SexpString(nil)
	back, ok := vReadOne(env, txt)
	vAssert(ok, "char-print-is-readable")
	if !ok {
		return
	}
	c, isC := back.(*SexpChar)
	vAssert(isC && c.Val == r, "char-reads-back")
	vReach("char")
}

// vh_C12_string: every string of up to 2 runes prints to a literal that
// reads back as the same string.
func vh_C12_string() {
	env := vEnvs(1)[0]
	n := vChoice("runes", 2) + 1
	if vTier() == 0 {
		n = 1
	}
	s := ""
	for i := 0; i < n; i++ {
		r := rune(vInt32("r"))
		vAssume(vValidRune(r))
		vAssume(r < 0x250)
		s += string(r)
	}
	v := &SexpStr{S: s}
	txt := v.SexpString(nil)
	back, ok := vReadOne(env, txt)
	vAssert(ok, "string-print-is-readable")
	if !ok {
		return
	}
	b, isS := back.(*SexpStr)
	vAssert(isS && b.S == s, "string-reads-back")
	vReach("string")
}

// vh_C12_int: integers print and read back (the digit model of the engine
// formats the symbolic value; the real lexer and strconv.ParseInt read it).
func vh_C12_int() {
	env := vEnvs(1)[0]
	i := vInt64("i")
	// five digits in both tiers: with six or more the read-back equality
	// (a chain of divisions and multiplications by powers of ten on 64-bit
	// vectors) comes back "unknown" from the solver within 30 s
	vAssume(i > -100000 && i < 100000)
	v := &SexpInt{Val: i}
	txt := v.SexpString(nil)
	back, ok := vReadOne(env, txt)
	vAssert(ok, "int-print-is-readable")
	if !ok {
		return
	}
	b, isI := back.(*SexpInt)
	vAssert(isI && b.Val == i, "int-reads-back")
	vReach("int")
}

// vh_C12_literals: numeric literal spellings denote their exact value:
// decimal with underscores, hex, octal, binary, uint64 suffix, sign.
func vh_C12_literals() {
	env := vEnvs(1)[0]
	nd := 1 + vChoice("digits", 3)
	kind := vChoice("kind", 6)
	var base int64
	prefix, suffix := "", ""
	switch kind {
	case 0:
		base = 10
	case 1:
		base, prefix = 16, "0x"
	case 2:
		base, prefix = 8, "0o"
	case 3:
		base, prefix = 2, "0b"
	case 4:
		base, suffix = 10, "ULL"
	default:
		base, prefix = 10, "-"
	}
	digits := ""
	var val int64
	for k := 0; k < nd; k++ {
		d := int64(vUint8("d"))
		vAssume(d < uint64AsInt(base))
		val = val*base + d
		var ch byte
		if d < 10 {
			ch = byte('0' + d)
		} else {
			ch = byte('a' + d - 10)
		}
		digits += string(ch)
		if kind == 0 && k == 0 && nd > 1 && vChoice("underscore", 2) == 1 {
			digits += "_"
		}
	}
	if kind == 5 {
		val = -val
	}
	txt := prefix + digits + suffix
	back, ok := vReadOne(env, txt)
	vAssert(ok, "literal-is-readable")
	if !ok {
		return
	}
	switch b := back.(type) {
	case *SexpInt:
		vAssert(kind != 4 && b.Val == val, "literal-value")
	case *SexpUint64:
		vAssert(kind == 4 && b.Val == uint64(val), "literal-value")
	default:
		vAssert(false, "literal-is-a-number")
	}
	vReach("literal")
}

func uint64AsInt(b int64) int64 { return b }

// vh_C12_nested: lists and arrays of atoms print and read back.
func vh_C12_nested() {
	vFormatOpaque(false)
	env := vEnvs(1)[0]
	atom := func() Sexp {
		switch vChoice("atom", 4) {
		case 0:
			i := vInt64("i")
			vAssume(i > -1000 && i < 1000)
			return &SexpInt{Val: i}
		case 1:
			return &SexpBool{Val: vBool("b")}
		case 2:
			return env.MakeSymbol("sym")
		default:
			r := rune(vInt32("r"))
			vAssume(r >= 0x20 && r < 0x7f)
			return &SexpStr{S: string(r)}
		}
	}
	var v Sexp
	switch vChoice("shape", 4) {
	case 0:
		v = MakeList([]Sexp{atom(), atom()})
	case 1:
		v = &SexpArray{Val: []Sexp{atom(), atom()}, Env: env}
	case 2:
		v = MakeList([]Sexp{atom(), &SexpArray{Val: []Sexp{atom()}, Env: env}})
	default:
		v = &SexpArray{Val: []Sexp{MakeList([]Sexp{atom()}), atom()}, Env: env}
	}
	txt := v.SexpString(nil)
	back, ok := vReadOne(env, txt)
	vAssert(ok, "nested-print-is-readable")
	if !ok {
		return
	}
	vAssert(vSexpEq(v, back), "nested-reads-back")
	vReach("nested")
}

// vh_C12_nil: nil inside data prints as the word nil, which the reader
// returns as the *symbol* nil rather than the nil value.
func vh_C12_nil() {
	env := vEnvs(1)[0]
	var v Sexp
	switch vChoice("shape", 3) {
	case 0:
		v = SexpNull
	case 1:
		v = MakeList([]Sexp{&SexpInt{Val: 1}, SexpNull})
	default:
		v = &SexpArray{Val: []Sexp{SexpNull, &SexpInt{Val: 1}}, Env: env}
	}
	back, ok := vReadOne(env, v.SexpString(nil))
	vAssert(ok, "nil-print-is-readable")
	if !ok {
		return
	}
	vAssert(vSexpEq(v, back), "nil-reads-back")
	vReach("nil")
}

// vh_C12_escapes: several escaped characters in one text (the reader's
// escape state must not leak from one escape to the next).
func vh_C12_escapes() {
	env := vEnvs(1)[0]
	r := rune(vInt32("r"))
	vAssume(vValidRune(r) && r < 0x250)
	var v Sexp
	switch vChoice("shape", 4) {
	case 0:
		v = &SexpStr{S: "\x01" + string(r)}
	case 1:
		v = &SexpStr{S: string(r) + "\u00ad" + "\x7f"}
	case 2:
		v = MakeList([]Sexp{&SexpChar{Val: 1}, &SexpChar{Val: r}})
	default:
		v = &SexpArray{Val: []Sexp{&SexpStr{S: "\u00ad"}, &SexpChar{Val: r}, &SexpStr{S: string(r)}}, Env: env}
	}
	back, ok := vReadOne(env, v.SexpString(nil))
	vAssert(ok, "escapes-print-is-readable")
	if !ok {
		return
	}
	vAssert(vSexpEq(v, back), "escapes-read-back")
	vReach("escapes")
}

// vh_C12_offsets: printed data reads back the same wherever it stands in a
// text (see vOffsets in the C13 harness): numeric literals, signs and
// exponents are classified with a bounded look-back memory whose wrap-around
// must not show.
var vC12Printed = []string{
	"-7 ", "[1 -7]", "(1 -2 3)", "2.5e-07 ", "1e+06 ", "-1.5 ", "[2.5e-07 -3e+20]", "-9223372036854775808 ", "+5 ", "-Inf ", "NaN ",
	`"-a"`, `'-'`, "(a - 7)", "(- 7 -7)", "a-7 ", "[0x1F -0x1F]", "18446744073709551615ULL ", "(quote -x)", "1e-3 ", "-.5 ",
}

func vh_C12_offsets() { vOffsets("offsets", vC12Printed, false) }

// vh_C12_widelits: literals next to the 64-bit limits denote their exact
// mathematical value or are rejected - never a wrapped one.  Hex (16 digits),
// octal (22 digits) and binary (64 digits) literals with symbolic leading
// digits, and decimal boundary spellings (2^63-1, 2^63, 2^64-1, 2^64, with
// and without the ULL suffix and the sign).
func vh_C12_widelits() {
	env := vEnvs(1)[0]
	var txt string
	var mag uint64    // magnitude of the mathematical value when it fits 64 bits
	overflow := false // the magnitude needs more than 64 bits
	neg := false
	ull := false
	hexd := func(d uint8) byte {
		if d < 10 {
			return '0' + d
		}
		return 'a' + d - 10
	}
	switch vChoice("kind", 4) {
	case 0: // 0x + 16 hex digits: two leading and the last one symbolic
		d1, d2, d3 := vUint8("d1"), vUint8("d2"), vUint8("d3")
		vAssume(d1 < 16 && d2 < 16 && d3 < 16)
		fill := []byte{'0', 'f', '8'}[vChoice("fill", 3)]
		b := []byte{'0', 'x', hexd(d1), hexd(d2)}
		var fv uint64
		switch fill {
		case 'f':
			fv = 15
		case '8':
			fv = 8
		}
		mag = uint64(d1)<<60 | uint64(d2)<<56
		for i := 0; i < 13; i++ {
			b = append(b, fill)
			mag |= fv << uint(52-4*i)
		}
		b = append(b, hexd(d3))
		mag |= uint64(d3)
		txt = string(b)
	case 1: // 0o + 22 octal digits: the leading one symbolic (2 and up exceed 64 bits)
		d1 := vUint8("d1")
		vAssume(d1 < 8)
		fill := []byte{'0', '7'}[vChoice("fill", 2)]
		b := []byte{'0', 'o', '0' + d1}
		overflow = d1 >= 2
		mag = uint64(d1) << 63
		for i := 0; i < 21; i++ {
			b = append(b, fill)
			if fill == '7' {
				mag |= 7 << uint(60-3*i)
			}
		}
		txt = string(b)
	case 2: // 0b + 64 binary digits: the two leading and the last one symbolic
		d1, d2, d3 := vUint8("d1"), vUint8("d2"), vUint8("d3")
		vAssume(d1 < 2 && d2 < 2 && d3 < 2)
		fill := []byte{'0', '1'}[vChoice("fill", 2)]
		b := []byte{'0', 'b', '0' + d1, '0' + d2}
		mag = uint64(d1)<<63 | uint64(d2)<<62 | uint64(d3)
		for i := 0; i < 61; i++ {
			b = append(b, fill)
			if fill == '1' {
				mag |= 1 << uint(61-i)
			}
		}
		b = append(b, '0'+d3)
		txt = string(b)
	default: // decimal boundary spellings
		dec := []struct {
			t        string
			mag      uint64
			overflow bool
			neg, ull bool
		}{
			{"9223372036854775807", 1<<63 - 1, false, false, false},
			{"9223372036854775808", 1 << 63, false, false, false},
			{"-9223372036854775808", 1 << 63, false, true, false},
			{"-9223372036854775809", 1<<63 + 1, false, true, false},
			{"18446744073709551615", 1<<64 - 1, false, false, false},
			{"18446744073709551616", 0, true, false, false},
			{"9223372036854775808ULL", 1 << 63, false, false, true},
			{"18446744073709551615ULL", 1<<64 - 1, false, false, true},
			{"18446744073709551616ULL", 0, true, false, true},
			{"9_223_372_036_854_775_807", 1<<63 - 1, false, false, false},
		}[vChoice("dec", 10)]
		txt, mag, overflow, neg, ull = dec.t, dec.mag, dec.overflow, dec.neg, dec.ull
	}
	back, ok := vReadOne(env, txt)
	fitsInt := !overflow && ((!neg && mag < 1<<63) || (neg && mag <= 1<<63))
	if fitsInt && !ull {
		vAssert(ok, "literal-that-fits-int64-is-readable")
	}
	if ull && !overflow {
		vAssert(ok, "uint64-literal-is-readable")
	}
	if !ok {
		vReach("wide-rejected")
		return
	}
	switch b := back.(type) {
	case *SexpInt:
		want := int64(mag)
		if neg {
			want = -int64(mag)
		}
		vAssert(fitsInt && b.Val == want, "wide-literal-exact-value-or-rejected")
	case *SexpUint64:
		vAssert(!overflow && !neg && b.Val == mag, "wide-literal-exact-value-or-rejected")
	case *SexpFloat:
		// a decimal too large for an integer may be read as a float: the nearest one
		vAssert(!ull && b.Val == float64(mag) && !overflow || overflow, "wide-literal-float-is-nearest")
	default:
		vAssert(false, "wide-literal-is-a-number")
	}
	vReach("wide")
}

// vh_C12_floats: floats print and read back.  strconv's float formatting and
// parsing (Ryu, Eisel-Lemire) are outside what the engine can encode, so this
// harness has no symbolic data: a grid of float64 bit patterns and of values
// produced by arithmetic is case-split and each value goes through the real
// printer and the real reader (the engine runs strconv's own code on the
// concrete value).  This part of the check is bounded enumeration, not a
// solver verdict, and is labelled so in the evidence.
var vC12FloatBits = []uint64{
	0x0000000000000000, 0x8000000000000000, 0x0000000000000001, 0x000fffffffffffff, 0x0010000000000000,
	0x3ff0000000000000, 0x3ff0000000000001, 0x3fefffffffffffff, 0x3fd3333333333334, 0x3fb999999999999a,
	0x4340000000000000, 0x4340000000000001, 0x433fffffffffffff, 0x43e0000000000000, 0x43dfffffffffffff, 0xc3e0000000000000,
	0x43f0000000000000, 0x4480000000000000, 0x7fefffffffffffff, 0xffefffffffffffff, 0x7ff0000000000000, 0xfff0000000000000,
	0x3949f623d5a8a733, 0x39b4484bfeebc2a0, 0x3b1f7102b5ec3d3c, 0x44b52d02c7e14af6, 0x4415af1d78b58c40,
}

var vC12FloatExprs = []string{
	`(+ 0.1 0.2)`, `(/ 1.0 3.0)`, `(/ 2.0 3e30)`, `(/ 1.0 7e25)`, `(* (+ 0.1 0.2) 1e-25)`, `(* 1e10 1e11)`, `(* 4.0 2305843009213693952.0)`,
	`(* 1.0 100)`, `(- 0.0 1e21)`, `(/ 1e300 1e-10)`, `(* 1.5 1e20)`, `(/ 7.0 1e22)`, `(* -1.0 0.0)`, `(+ 1e15 0.3)`,
}

func vh_C12_floats() {
	env := vStdEnvs(1)[0]
	var v float64
	k := vChoice("float", len(vC12FloatBits)+len(vC12FloatExprs))
	if k < len(vC12FloatBits) {
		v = vFloatFromBits(vC12FloatBits[k])
	} else {
		res, err, p := vEvalString(env, vC12FloatExprs[k-len(vC12FloatBits)])
		f, isF := res.(*SexpFloat)
		if p || err != nil || !isF {
			vAssert(false, "float-expression-evaluates")
			return
		}
		v = f.Val
	}
	nested := vChoice("nested", 2) == 1
	var val Sexp = &SexpFloat{Val: v}
	if nested {
		val = &SexpArray{Val: []Sexp{&SexpInt{Val: 1}, &SexpFloat{Val: v}}, Env: env}
	}
	txt := val.SexpString(nil)
	back, ok := vReadOne(env, txt)
	vAssert(ok, "float-print-is-readable")
	if !ok {
		return
	}
	if nested {
		arr, isA := back.(*SexpArray)
		vAssert(isA && len(arr.Val) == 2, "float-in-array-reads-back")
		if !isA || len(arr.Val) != 2 {
			return
		}
		back = arr.Val[1]
	}
	// numbers compare by value: a whole float may come back as the integer of the same value
	switch b := back.(type) {
	case *SexpFloat:
		vAssert(b.Val == v || (b.Val != b.Val && v != v), "float-reads-back")
	case *SexpInt:
		vAssert(float64(b.Val) == v && v > -9.3e18 && v < 9.3e18, "float-reads-back")
	default:
		vAssert(false, "float-reads-back-as-a-number")
	}
	vReach("floats")
}

func vFloatFromBits(b uint64) float64 { return vMathFloat64frombits(b) }

func vMathFloat64frombits(b uint64) float64 { return math.Float64frombits(b) }

// strings that scripts compute rather than write down: built by the string
// builtins from pieces of both literal kinds (double-quoted and backtick),
// with a symbolic rune in one piece - whatever the way a string came to be,
// its printed form reads back as the same string
var vC12Computed = []string{
	"(concat `abc` \"dPe\")",
	"(concat \"ab\" `cPd`)",
	"(append `abc` \"P\")",
	"(append \"ab\" 'c')",
	"(concat `a` `b` \"P\")",
	"(str `raw` \"P\" 12)",
	"(join [`a` \"P\"] \"-\")",
	"(first (split `aPb` \"P\"))",
	"(sym2str (quote abc))",
	"(slice `abcdef` 1 3)",
	"(concat (slice `abcdef` 0 2) \"P\")",
	"(let [s `raw`] (concat s \"P\"))",
	"(aget [`raw`] 0)",
	"(hget (hash k: (concat `x` \"P\")) k:)",
}

func vh_C12_computed() {
	env := vStdEnvs(1)[0]
	k := vChoice("expr", len(vC12Computed))
	// the piece marked P: a backtick, a double quote, a backslash, a newline, or any printable ASCII rune
	pk := vChoice("piece", 5)
	var piece string
	switch pk {
	case 0:
		piece = "`"
	case 1:
		piece = `\"`
	case 2:
		piece = `\\`
	case 3:
		piece = `\n`
	default:
		piece = "q"
	}
	src := vReplace(vC12Computed[k], "P", piece)
	res, err, p := vEvalString(env, src)
	vAssert(!p, "computing-a-string-does-not-panic")
	if p || err != nil {
		// an expression this configuration does not have is not part of the claim
		vReach("computed")
		return
	}
	s, isS := res.(*SexpStr)
	if !isS {
		vReach("computed")
		return
	}
	txt := s.SexpString(nil)
	back, ok := vReadOne(env, txt)
	vAssert(ok, "computed-string-print-is-readable")
	if ok {
		b, isB := back.(*SexpStr)
		vAssert(isB && b.S == s.S, "computed-string-reads-back")
	}
	vReach("computed")
}

// vh_C12_shared: a value in which one array or hash *object* occurs more
// than once (built through a variable) prints exactly like the value built
// from separate equal objects, and so reads back: printing has no memory of
// what it printed before.
var vC12Shared = []struct{ shared, distinct string }{
	{`(def a [1 7]) [a 3 a]`, `[[1 7] 3 [1 7]]`},
	{`(def a [1 7]) [[a] [a] a]`, `[[[1 7]] [[1 7]] [1 7]]`},
	{`(def h (hash k: 7)) [h h]`, `[(hash k: 7) (hash k: 7)]`},
	{`(def a [7]) (hash x: a y: a)`, `(hash x: [7] y: [7])`},
	{`(def a [7]) (list a a)`, `(list [7] [7])`},
	{`(def h (hash k: 7)) (hash p: h q: [h h])`, `(hash p: (hash k: 7) q: [(hash k: 7) (hash k: 7)])`},
	{`(def a []) [a a]`, `[[] []]`},
	{`(def a [1 7]) (def b [a a]) [b a b]`, `[[[1 7] [1 7]] [1 7] [[1 7] [1 7]]]`},
	{`(def a [1 7]) (str a) [a]`, `[[1 7]]`},
}

func vh_C12_shared() {
	vFormatOpaque(true)
	env := vStdEnvs(2)[0]
	twin := vStdEnvPool[1]
	k := vChoice("value", len(vC12Shared))
	h := vSmallInt("h")
	run := func(e *Zlisp, src string) (Sexp, bool) {
		var r Sexp
		for _, f := range vT(e, src, h) {
			var err error
			var p bool
			r, err, p = vEval(e, f)
			if err != nil || p {
				return nil, false
			}
		}
		return r, true
	}
	sv, ok1 := run(env, vC12Shared[k].shared)
	dv, ok2 := run(twin, vC12Shared[k].distinct)
	if !ok1 || !ok2 {
		vAssert(false, "values-build")
		return
	}
	st, dt := sv.SexpString(nil), dv.SexpString(nil)
	vAssert(st == dt, "shared-objects-print-like-separate-equal-ones")
	// printed twice: the same text again
	vAssert(sv.SexpString(nil) == st, "printing-again-gives-the-same-text")
	hasHash := false
	for i := range st {
		if st[i] == '{' {
			hasHash = true // printed hashes are not data syntax (outside the claim)
		}
	}
	if !hasHash {
		back, ok := vReadOne(env, st)
		vAssert(ok, "printed-value-with-shared-objects-is-readable")
		if ok {
			vAssert(back.SexpString(nil) == dt, "printed-value-with-shared-objects-reads-back")
		}
	}
	vReach("shared")
}
