//go:build verif

package zygo

// C16 — lazy parameters delay, memoise and stay lexical; strict ones do not.
// Every argument expression is (t k) with the host trace function, so the
// trace shows exactly which arguments were evaluated, how often and in what
// order; the reference evaluator implements lazy parameters as memoised
// thunks closed over the caller's frame.

var vC16Functions = []string{
	// body patterns over one lazy (#p) and one strict (q) parameter
	`(defn f [#p q] q)`,                                   // never forced
	`(defn f [#p q] (+ (force #p) q))`,                    // forced once
	`(defn f [#p q] (+ (force #p) (force #p)))`,           // forced twice: memoised
	`(defn f [#p q] (cond (< q 0) (force #p) q))`,         // forced on one control path only
	`(defn f [q #p] (begin (t 777) (+ q (force #p))))`,    // lazy second: strict first evaluated before the call
	`(defn f [#p q] (substitute #p))`,                     // source recoverable, not evaluated
	`(defn f [#p q] (fn [] (force #p)))`,                  // forced after the caller returned
	`(defn f [#p #r] (+ (force #r) (force #p)))`,          // two lazy, forced in reverse order
	`(defn f [q & rest] (list q rest))`,                   // variadic tail is strict
	`(defn f [#p & rest] (begin (t 555) (list (force #p) rest)))`, // lazy then variadic
	// the rest parameter spelled with the lazy sigil: the variadic tail is evaluated before the call all the same
	`(defn f [q & #rest] (begin (t 555) (list q #rest)))`,
	`(defn f [#p & #rest] (begin (t 555) (list #rest (force #p))))`,
	`(defn f [& #rest] (begin (t 555) #rest))`,
	// the name was bound before, to a function of another shape (strict where the new one is lazy, and the reverse)
	`(defn f [p q] (+ p q)) (def cnt 0) (defn f [#p q] (cond (< cnt 2) (begin (set cnt (+ cnt 1)) (f (t (+ q cnt)) q)) (force #p)))`,
	`(defn f [#p #q] 0) (def cnt 0) (defn f [p q] (cond (< cnt 2) (begin (set cnt (+ cnt 1)) (f (t (+ q cnt)) q)) (+ p q)))`,
	`(defn f [p #q] 0) (def cnt 0) (defn f [#p q] (cond (< cnt 1) (begin (set cnt (+ cnt 1)) (f (t 5) q)) (substitute #p)))`,
	// force and substitute in every order on one lazy argument: forcing never
	// changes the source, recovering the source never forces
	`(defn f [#p q] (list (force #p) (substitute #p)))`,
	`(defn f [#p q] (list (substitute #p) (force #p) (substitute #p)))`,
	`(defn f [#p q] (begin (force #p) (force #p) (list (substitute #p) (force #p))))`,
	`(defn f [#p q] (let [s1 (substitute #p) v (force #p)] (list s1 v (substitute #p) q)))`,
	`(defn f [#p #r] (begin (force #r) (list (substitute #p) (substitute #r) (force #p))))`,
	// the function calls itself with an observable argument in the lazy
	// position: in tail position (compiled as a jump), not in tail position,
	// under a let, and handing the source back
	`(def cnt 0) (defn f [#p q] (cond (< cnt 2) (begin (set cnt (+ cnt 1)) (f (t (+ q cnt)) q)) (force #p)))`,
	`(def cnt 0) (defn f [#p q] (cond (< cnt 2) (begin (set cnt (+ cnt 1)) (+ 0 (f (t (+ q cnt)) q))) (force #p)))`,
	`(def cnt 0) (defn f [#p q] (let [w 1] (cond (< cnt 2) (begin (set cnt (+ cnt w)) (f (t (+ q w)) q)) q)))`,
	`(def cnt 0) (defn f [#p q] (cond (< cnt 1) (begin (set cnt (+ cnt 1)) (f (t 5) q)) (substitute #p)))`,
	`(def cnt 0) (defn f [q #p] (cond (< cnt 2) (begin (set cnt (+ cnt 1)) (f (t cnt) (t (+ 100 cnt)))) (+ q (force #p))))`,
}

var vC16Routes = []string{
	`(f (t 9001) (t 9002))`,                                           // by name
	`(def g f) (g (t 9001) (t 9002))`,                                 // alias
	`(defn call [h] (h (t 9001) (t 9002))) (call f)`,                  // function passed as parameter
	`((begin (t 888) f) (t 9001) (t 9002))`,                           // computed callee
	`(apply f [(t 9001) (t 9002)])`,                                   // apply: values already evaluated
	`(let [q 9003 p 9003] (f (t 9001) (t 9002)))`,                     // caller has same-named locals
	`(defn outer [x] (f (t (+ x 9001)) (t 9002))) (outer 1)`,          // lazy arg refers to the caller's local
	`(f (t 9001) (t 9002) (t 9003))`,                                  // extra argument (variadic or arity error)
	`(apply f [(quote (t 9003)) (t 9002)])`,                            // apply with a list value: already evaluated, must not run as code when forced
	`(apply f [(quote undefinedsym) (t 9002)])`,                        // ... a symbol value
	`(first (map (fn [e] (f e (t 9002))) [(quote (t 9003))]))`,          // map element handed on to the lazy function
	`(apply f (list (list 9001 9002) (t 9002)))`,                       // apply with a list of arguments, the first itself a list
	`(defn mk [a] (fn [] (f (t (+ a 9001)) (t 9002)))) (def a 1000) ((mk 7))`, // caller is a closure whose creator returned; the lazy argument mentions its captured variable
	`(defn mk [a] (let [b (* a 2)] (fn [c] (f (t (+ (+ a b) c)) (t 9002))))) (def b 5000) ((mk 3) 9001)`, // captured let variable and own parameter
	`(defn wrap [g] (g)) (defn mk [a] (fn [] (f (t (+ a 9001)) (t 9002)))) (wrap (mk 7))`, // the closure is called from inside another function
}

func vh_C16_routes() {
	vFormatOpaque(true)
	env := vEvalEnv(0)
	fk := vChoice("function", len(vC16Functions))
	rk := vChoice("route", len(vC16Routes))
	h1, h2, h3 := vSmallInt("h1"), vSmallInt("h2"), vSmallInt("h3")
	forms := vT(env, vC16Functions[fk], h1, h2, h3)
	forms = append(forms, vT(env, vC16Routes[rk], h1, h2, h3)...)
	// a closure result is called afterwards (forcing after the caller returned)
	res, ok := vDiff(env, forms, "lazy")
	if ok {
		if _, isFn := res.(*SexpFunction); isFn && fk == 6 {
			env.AddGlobal("resfn", res)
			r2, err2, p2 := vEval(env, vL(vS(env, "resfn")))
			vAssert(!p2 && err2 == nil, "late-force-succeeds")
			if !p2 && err2 == nil {
				i, isI := r2.(*SexpInt)
				if rk <= 5 { // routes whose first argument expression is (t h1) itself
					vAssert(isI && i.Val == h1.(*SexpInt).Val, "late-force-value")
				}
			}
		}
	}
	vReach("lazy")
}

// vh_C16_strict: a strict function never receives an unevaluated argument,
// whatever route it is called by: the probe function records the kind of
// what it was given.
func vh_C16_strict() {
	vFormatOpaque(true)
	env := vEvalEnv(0)
	sawLazy := false
	env.AddFunction("probe", func(env *Zlisp, name string, args []Sexp) (Sexp, error) {
		for _, a := range args {
			if _, isLazy := a.(*SexpLazyArg); isLazy {
				sawLazy = true
			}
		}
		if len(args) == 0 {
			return SexpNull, nil
		}
		return args[0], nil
	})
	h1 := vSmallInt("h1")
	progs := []string{
		`(defn s [u] (probe u)) (s (t 9001))`,
		`(defn lz [#p] (probe (force #p))) (lz (t 9001))`,
		`(defn s [u] (probe u)) (defn lz [#p] (s (force #p))) (lz (t 9001))`,
		`(defn s [u] (probe u)) (map s [(t 9001)])`,
		`(defn s [u] (probe u)) (apply s [(t 9001)])`,
		`(defn s [u & r] (probe u r)) (s (t 9001) (t 9001))`,
		`(defn lz [#p] 1) (defn s [u] (probe u)) (def g lz) (set g s) (g (t 9001))`,
		`(defn lz [#p] (probe #p) 1) (lz (t 9001))`, // a lazy function passing its lazy arg on: probe sees it (allowed: lz is lazy) - excluded below
	}
	k := vChoice("program", len(progs)-1)
	forms := vT(env, progs[k], h1)
	for _, f := range forms {
		_, err, p := vEval(env, f)
		vAssert(!p, "strict-no-panic")
		if err != nil || p {
			break
		}
	}
	vAssert(!sawLazy, "strict-function-never-sees-lazy-arg")
	vAssert(len(vTraceLog) >= 1, "strict-argument-evaluated")
	vReach("strict")
}
