//go:build verif

package zygo

// C04 — an evaluation that succeeds leaves nothing behind in the
// interpreter.  The C02 program generators, evaluated form by form; after
// every successful evaluation the four VM stacks must be at rest, on every
// control path (operands are symbolic, so each shape covers all of them).

func vC04AtRest(env *Zlisp, label string) {
	vAssert(env.datastack.Size() == 0, label+"-data-stack-empty")
	vAssert(env.linearstack.Size() == 1, label+"-only-global-scope")
	vAssert(env.addrstack.Size() == 0, label+"-call-stack-empty")
	vAssert(env.loopstack.Size() == 0, label+"-loop-stack-empty")
}

func vC04Run(env *Zlisp, forms []Sexp, label string) {
	vC04AtRest(env, label+"-before")
	for _, f := range forms {
		_, err, panicked := vEval(env, f)
		if panicked {
			vDone() // C01
		}
		if err != nil {
			vDone() // failed evaluations are C05's subject
		}
		vC04AtRest(env, label)
	}
	// empty input afterwards: nil, never a stale value
	res, err, panicked := vEvalString(env, "")
	vAssert(!panicked && err == nil && res == SexpNull, label+"-empty-input-is-nil")
	vC04AtRest(env, label+"-after-empty")
	vReach(label)
}

func vh_C04_expr()   { vFormatOpaque(true); env := vEvalEnv(0); vC04Run(env, vProg_expr(env), "expr") }
func vh_C04_nested() { vFormatOpaque(true); env := vEvalEnv(0); vC04Run(env, vProg_nested(env), "nested") }
func vh_C04_loops()  { vFormatOpaque(true); env := vEvalEnv(0); vC04Run(env, vProg_loops(env), "loops") }
func vh_C04_calls()  { vFormatOpaque(true); env := vEvalEnv(0); vC04Run(env, vProg_calls(env), "calls") }

// vh_C04_together: evaluating the forms one at a time gives the same
// results as evaluating them together in one (begin ...).
func vh_C04_together() {
	vFormatOpaque(true)
	one := vEvalEnv(0)
	all := vEvalEnv(1)
	forms := vProg_calls(one)
	var last Sexp = SexpNull
	for _, f := range forms {
		r, err, panicked := vEval(one, f)
		if err != nil || panicked {
			vDone()
		}
		last = r
	}
	logOne := append([]int64(nil), vTraceLog...)
	vTraceLog = nil
	r2, err, panicked := vEval(all, MakeList(append([]Sexp{all.MakeSymbol("begin")}, forms...)))
	vAssert(!panicked && err == nil, "together-succeeds")
	if panicked || err != nil {
		return
	}
	vAssert(vSexpEq(last, r2), "together-same-value")
	vAssert(len(logOne) == len(vTraceLog), "together-same-trace-length")
	if len(logOne) == len(vTraceLog) {
		for i := range logOne {
			vAssert(logOne[i] == vTraceLog[i], "together-same-trace")
		}
	}
	vC04AtRest(all, "together")
	vReach("together")
}

// ---- the full surface language: declarations, builders, macros, range,
// infix blocks, multiple assignment (standard setup of a sandbox) ----
//
// Each program is concrete text with symbolic operands (9001.. are holes:
// 9001 an arbitrary small integer, 9002 a loop bound in 0..3); it is
// evaluated form by form in one long-lived interpreter and the four stacks
// must be at rest after every form that returns a value, on every control
// path the operands select.  A form that returns an error ends the path
// (C05's subject).
var vC04Decls = []string{
	// struct / instance / field access
	`(struct Dog [(field Name: string e:0) (field Number: int64 e:1)]) (def d (Dog Name: "rover" Number: 9001)) (+ 0 d.Number) (hset d Number: 3) (:Number d)`,
	// var, typed assignment
	`(var a int64) (a = 9001) (+ a 1)`,
	`(var p (* int64)) (def q 9001) (p = (& q)) (* p)`,
	`(var s string) (s = "x") (concat s "y")`,
	// func with and without a body, call with named arguments
	`(func trundle [a:int64 b:string] [n:int64 err:error] (return (+ a 78) nil)) (trundle a:9001 b:"hi")`,
	`(func driveIt [a:int64 b:string] [n:int64 err:error])`,
	`(func pick [a:int64] [n:int64] (cond (< a 5) (return 1) (return 2))) (pick a:9001)`,
	`(func stub [a:int64] [n:int64]) (stub 9001) (stub a:9001) (stub 1)`,
	`(func two [a:int64 b:string] [n:int64 err:error]) (two 9001 "x") (two b:"y" a:9001)`,
	`(func none [] []) (none) (none)`,
	`(func addTwo [a:int64 b:int64] [n:int64] (return (+ a b))) (def r (addTwo b:40 a:9001)) (let [q (addTwo 1 2)] q) (addTwo a:1 b:2)`,
	// method, interface
	`(struct Kart [(field Id: int64 e:0) (field Name: string e:1)]) (method [(p *Kart)] DriveAway [][s:string] (return "road")) (def c (Kart Id: 9001)) (+ 0 c.Id)`,
	`(interface Driveable [(func driveIt [a:int64 b:string] [n:int64 err:error])])`,
	// package: construction, member access, calls into it
	`(def p (package "pk" (def Open 9001) (def closed 2) (defn Get [] closed) (defn Add [x] (+ x closed)))) (+ 0 p.Open) (p.Get) (p.Add 9001)`,
	`(def o (package "out" (def In (package "inn" (def V 9001) (defn F [] V))))) (+ 0 o.In.V) (o.In.F)`,
	`(def p (package "pk" (def N 0) (for [(def i 0) (< i 9002) (set i (+ i 1))] (cond (== i 1) (continue) (set N (+ N i)))))) (+ 0 p.N)`,
	// macros: definition, expansion at top level, in functions and loops, macexpand
	`(defmac inc2 [x] ^(+ ~x 2)) (inc2 9001) (macexpand (inc2 3)) (defn f [y] (inc2 y)) (f 9001)`,
	`(defmac twice [& body] ^(begin ~@body ~@body)) (def n 0) (twice (set n (+ n 9001))) n`,
	`(defmac unless [c & body] ^(cond ~c nil (begin ~@body))) (def n 0) (for [(def i 0) (< i 9002) (set i (+ i 1))] (unless (== i 1) (set n (+ n i)))) n`,
	`(defmac swap [a b] ^(let [tmp ~a] (set ~a ~b) (set ~b tmp))) (def x 9001) (def y 2) (swap x y) (- x y)`,
	// multiple assignment, mdef
	`(a b c = 9001 2 3) (+ a b c)`,
	`(a b = 9001 2) (+ a b)`,
	`(defn f [x y] (+ x y)) (r s t = (f 1 2) (f 3 4) (f 5 9001)) (+ r s t)`,
	`(defn g [] (a b = 9001 2) (+ a b)) (g) (g)`,
	`(mdef a b c (list 4 5 9001)) (+ a c)`,
	`(for [(def i 0) (< i 9002) (set i (+ i 1))] (a b = i 9001))`,
	// range over hashes and arrays
	`(def h (hash a:44 b:9001)) (def s 0) (range k v h (set s (+ s v))) s`,
	`(def arr [1 2 9001]) (def s 0) (range i v arr (cond (== v 2) (continue) (set s (+ s v)))) s`,
	`(def h (hash a:1 b:2 c:3)) (def s 0) (range k v h (cond (> v 9001) (break) (set s (+ s v)))) s`,
	// infix blocks: statements, assignment, if/else, go-style for, labels
	`{ a = 9001; b = a + 2 * 3; b }`,
	`{ x := 9001; if x > 3 { x = 1 } else { x = 2 }; x }`,
	`{ x := 9001; if x > 3 { x = 1 }; x }`,
	`{ s := 0; for i := 0; i < 9002; i++ { s += i }; s }`,
	`{ s := 0; for i := 0; i < 3; i++ { if i == 9001 { continue }; s += i }; s }`,
	`{ s := 0; for i := 0; i < 3; i++ { if i == 9001 { break }; s += i }; s }`,
	`{ s := 0; outer: for i := 0; i < 3; i++ { for j := 0; j < 2; j++ { if j == 9001 { continue outer }; if i == 9002 { break outer }; s += 1 } }; s }`,
	`{ s := 0; for s < 9002 { s++ }; s }`,
	`(def arr [1 2 9001]) { arr[1] = 7 } { arr[0:2] } { arr[2] + 1 }`,
	`(def h (hash a: 1)) (set h.a 9001) { h.a = 5 } (+ 0 h.a)`,
	`{ a := [1 2 3]; s := 0; for i, v := range a { s += v }; s }`,
	`{ h := (hash a:1 b:9001); s := 0; for k, v := range h { s += v }; s }`,
	`(defn f [x] { y := x * 2; if y > 4 { (return y) }; y + 1 }) (f 9001)`,
	`{ a, b = 9001, 2 } (+ a b)`,
	// eval-style builtins and nested evaluations
	`(eval (quote (+ 1 9001))) (eval (quote (def z 9001))) z`,
	`(apply + [1 9001]) (map (fn [x] (+ x 1)) [1 9001])`,
	// code handed to an eval-style builtin that pushes more than one operand (a quote of two things, a begin of several)
	`(eval (quote (quote 10 9001)))`,
	`(def arr3 [5 6 9001]) (aget arr3 (quote (quote 0 2)))`,
	`(eval (quote (begin 1 2 9001))) (eval (quote (quote 1 2 3 9001)))`,
	`(defn ev [x] (eval x)) (ev (quote (quote 7 9001))) (ev (quote (quote 7 8 9001)))`,
	`(def hk (hash a: 9001)) (hget hk (quote a)) (eval (quote (quote hk 9001)))`,
	`(expectError "Error calling 'first': first called on empty array" (first [])) 9001`,
	// closures stored in data, called after the creator returned
	`(defn mk [n] (fn [] (set n (+ n 1)) n)) (def c (mk 9001)) (c) (c)`,
	// strings, hashes, arrays as values of statements
	`(def h (hash)) (hset h k: 9001) (hget h k:) (hdel h k:) (len h)`,
	`[1 2 9001]`,
	`(quote (a b 9001))`,
	`"just a string"`,
}

func vh_C04_decls() {
	vFormatOpaque(true)
	env := vStdEnvs(1)[0]
	k := vChoice("program", len(vC04Decls))
	h1 := vSmallInt("h1")
	n := vInt64("n")
	vAssume(n >= 0 && n <= 3)
	forms := vT(env, vC04Decls[k], h1, &SexpInt{Val: n})
	vC04AtRest(env, "decls-before")
	for _, f := range forms {
		_, err, panicked := vEval(env, f)
		if panicked || err != nil {
			vDone()
		}
		vC04AtRest(env, "decls")
	}
	res, err, panicked := vEvalString(env, "")
	vAssert(!panicked && err == nil && res == SexpNull, "decls-empty-input-is-nil")
	vC04AtRest(env, "decls-after-empty")
	vReach("decls")
	vReachIdx("decls", k, len(vC04Decls))
}

// vh_C04_idle: an idle interpreter does not grow with the number of
// evaluations it has served: the same declaration or statement evaluated
// r <= 3 times leaves the stacks where one evaluation leaves them.
func vh_C04_idle() {
	vFormatOpaque(true)
	env := vStdEnvs(1)[0]
	k := vChoice("program", len(vC04Decls))
	h1 := vSmallInt("h1")
	n := vInt64("n")
	vAssume(n >= 0 && n <= 3)
	forms := vT(env, vC04Decls[k], h1, &SexpInt{Val: n})
	for round := 0; round < 3; round++ {
		for _, f := range forms {
			_, err, panicked := vEval(env, f)
			if panicked || err != nil {
				vDone()
			}
		}
		vC04AtRest(env, "idle")
	}
	vReach("idle")
	vReachIdx("idle", k, len(vC04Decls))
}

// vh_C04_afterfailure: an evaluation that returns a value leaves the
// interpreter at rest whatever failed before it: a form that fails at
// compile time or at run time (every position of vC05BadForm) is followed by
// successful evaluations - a plain expression, a loop with break, a function
// call - after each of which the four stacks are at rest and the value is
// the expected one; a break outside any loop is still rejected.
func vh_C04_afterfailure() {
	vFormatOpaque(true)
	env := vEvalEnv(0)
	e := env
	s := func(n string) Sexp { return vS(e, n) }
	nfail := 1
	if vTier() == 1 {
		nfail = 1 + vChoice("nfail", 2)
	}
	for k := 0; k < nfail; k++ {
		_, err, panicked := vEval(env, vC05BadForm(env, true))
		if panicked {
			vDone() // C01
		}
		if err == nil {
			vC04AtRest(env, "afterfailure-unexpected-success")
		}
	}
	h := vSmallInt("h")
	followups := []struct {
		form Sexp
		want vrVal
	}{
		{vL(s("+"), h, vI(2)), vrVal{k: vrInt, i: h.(*SexpInt).Val + 2}},
		{vL(s("begin"), vL(s("def"), s("acc"), vI(0)),
			vL(s("for"), vA(e, vL(s("def"), s("k"), vI(0)), vL(s("<"), s("k"), vI(5)), vL(s("set"), s("k"), vL(s("+"), s("k"), vI(1)))),
				vL(s("cond"), vL(s("=="), s("k"), vI(3)), vL(s("break")), vL(s("set"), s("acc"), vL(s("+"), s("acc"), s("k"))))),
			s("acc")), vrVal{k: vrInt, i: 3}},
		{vL(s("begin"), vL(s("defn"), s("after"), vA(e, s("u")), vL(s("let"), vA(e, s("w"), s("u")), vL(s("*"), s("w"), vI(2)))), vL(s("after"), h)), vrVal{k: vrInt, i: h.(*SexpInt).Val * 2}},
	}
	for _, fu := range followups {
		res, err, panicked := vEval(env, fu.form)
		vAssert(!panicked && err == nil, "afterfailure-followup-succeeds")
		if panicked || err != nil {
			return
		}
		vAssert(vrMatch(res, fu.want), "afterfailure-followup-value")
		vC04AtRest(env, "afterfailure")
	}
	// no loop record may be left behind: a break outside any loop is an error
	_, err, panicked := vEval(env, vL(s("defn"), s("stray"), vA(e), vL(s("break"))))
	vAssert(!panicked && err != nil, "afterfailure-stray-break-rejected")
	res, err, panicked := vEvalString(env, "")
	vAssert(!panicked && err == nil && res == SexpNull, "afterfailure-empty-input-is-nil")
	vReach("afterfailure")
}

// vh_C04_queued: the embedding API lets a host queue code with several Load
// calls (LoadString, LoadExpressions) before one Run, or between Runs.  A
// successful Run of queued code leaves the interpreter as evaluating the
// same forms one at a time does: the last form's value returned, the four
// stacks at rest, empty input afterwards nil.
func vh_C04_queued() {
	vFormatOpaque(true)
	env := vEvalEnv(0)
	h := vSmallInt("h")
	texts := []string{`(def a 9001)`, `(+ a 1)`, `(begin (def b (+ a 2)) b)`, `(let [q a] (* q 2))`, `(defn g [x] (+ x a))`, `(g 3)`, `[a 1]`, `(cond (< a 0) 1 2)`}
	n := 2 + vChoice("loads", 3)
	how := vChoice("how", 3)
	var lastForm string
	for i := 0; i < n; i++ {
		var txt string
		if i == 0 {
			txt = texts[0]
		} else {
			txt = texts[1+vChoice("text", len(texts)-1)]
		}
		lastForm = txt
		forms := vT(env, txt, h)
		var err error
		switch how {
		case 0:
			err = env.LoadExpressions(forms)
		case 1:
			// two forms in one load
			err = env.LoadExpressions(append(vT(env, `(def unused 1)`), forms...))
		default:
			// a Run between the first load and the rest
			err = env.LoadExpressions(forms)
			if err == nil && i == 0 {
				_, err = env.Run()
			}
		}
		if err != nil {
			vAssert(false, "queued-load-succeeds")
			return
		}
	}
	res, err := env.Run()
	if err != nil {
		vDone() // e.g. g called before it was queued: failed evaluations are C05's subject
	}
	// the value is the last form's: compare with a twin that evaluates the last form alone
	twin := vEvalEnvs[1]
	for _, txt := range []string{texts[0], `(defn g [x] (+ x a))`, `(def b (+ a 2))`} {
		for _, f := range vT(twin, txt, h) {
			if _, e2, p2 := vEval(twin, f); e2 != nil || p2 {
				vAssert(false, "twin-setup")
				return
			}
		}
	}
	var want Sexp
	for _, f := range vT(twin, lastForm, h) {
		var e2 error
		var p2 bool
		want, e2, p2 = vEval(twin, f)
		if e2 != nil || p2 {
			vAssert(false, "twin-evaluates")
			return
		}
	}
	if _, isFn := want.(*SexpFunction); !isFn {
		vAssert(vSexpEq(res, want), "queued-run-returns-the-last-form's-value")
	}
	vC04AtRest(env, "queued")
	r2, e3, p3 := vEvalString(env, "")
	vAssert(!p3 && e3 == nil && r2 == SexpNull, "queued-empty-input-is-nil")
	vC04AtRest(env, "queued-after-empty")
	vReach("queued")
}
