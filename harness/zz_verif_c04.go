//go:build verif

package zygo

// C04 — an evaluation that succeeds leaves nothing behind in the
// interpreter.  The C02 program generators, evaluated form by form; after
// every successful evaluation the four VM stacks must be at rest, on every
// control path (operands are symbolic, so each shape covers all of them).

func vC04AtRest(env *Zlisp, label string) {
	vAssert(env.datastack.Size() == 0, label+"-data-stack-empty")
	vAssert(env.linearstack.Size() == 1, label+"-only-global-scope")
	vAssert(env.addrstack.Size() == 0, label+"-call-stack-empty")
	vAssert(env.loopstack.Size() == 0, label+"-loop-stack-empty")
}

func vC04Run(env *Zlisp, forms []Sexp, label string) {
	vC04AtRest(env, label+"-before")
	for _, f := range forms {
		_, err, panicked := vEval(env, f)
		if panicked {
			vDone() // C01
		}
		if err != nil {
			vDone() // failed evaluations are C05's subject
		}
		vC04AtRest(env, label)
	}
	// empty input afterwards: nil, never a stale value
	res, err, panicked := vEvalString(env, "")
	vAssert(!panicked && err == nil && res == SexpNull, label+"-empty-input-is-nil")
	vC04AtRest(env, label+"-after-empty")
	vReach(label)
}

func vh_C04_expr()   { vFormatOpaque(true); env := vEvalEnv(0); vC04Run(env, vProg_expr(env), "expr") }
func vh_C04_nested() { vFormatOpaque(true); env := vEvalEnv(0); vC04Run(env, vProg_nested(env), "nested") }
func vh_C04_loops()  { vFormatOpaque(true); env := vEvalEnv(0); vC04Run(env, vProg_loops(env), "loops") }
func vh_C04_calls()  { vFormatOpaque(true); env := vEvalEnv(0); vC04Run(env, vProg_calls(env), "calls") }

// vh_C04_together: evaluating the forms one at a time gives the same
// results as evaluating them together in one (begin ...).
func vh_C04_together() {
	vFormatOpaque(true)
	one := vEvalEnv(0)
	all := vEvalEnv(1)
	forms := vProg_calls(one)
	var last Sexp = SexpNull
	for _, f := range forms {
		r, err, panicked := vEval(one, f)
		if err != nil || panicked {
			vDone()
		}
		last = r
	}
	logOne := append([]int64(nil), vTraceLog...)
	vTraceLog = nil
	r2, err, panicked := vEval(all, MakeList(append([]Sexp{all.MakeSymbol("begin")}, forms...)))
	vAssert(!panicked && err == nil, "together-succeeds")
	if panicked || err != nil {
		return
	}
	vAssert(vSexpEq(last, r2), "together-same-value")
	vAssert(len(logOne) == len(vTraceLog), "together-same-trace-length")
	if len(logOne) == len(vTraceLog) {
		for i := range logOne {
			vAssert(logOne[i] == vTraceLog[i], "together-same-trace")
		}
	}
	vC04AtRest(all, "together")
	vReach("together")
}
