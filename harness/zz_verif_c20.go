//go:build verif

package zygo

// C20 — evaluation is deterministic (Go map iteration order only).  Under
// the engine's nondeterministic-order mode every `range` over a Go map of at
// most 3 entries visits a case-split permutation; each scenario is run once
// in insertion order and once in an arbitrary order and must print the same.

func vC20Funcs() map[string]ZlispUserFunction {
	return map[string]ZlispUserFunction{
		"<":   CompareFunction("<"),
		"car": FirstFunction,
		"cdr": RestFunction,
	}
}

func vC20Battery(env *Zlisp) string {
	out := ""
	q := func(n string) Sexp { return vL(vS(env, "quote"), vS(env, n)) }
	for _, f := range []Sexp{
		vL(vS(env, "<"), q("car"), q("cdr")),
		vL(vS(env, "<"), q("cdr"), q("<")),
		vL(vS(env, "<"), q("zzz"), q("car")),
	} {
		r, err, p := vEval(env, f)
		switch {
		case p:
			out += "panic;"
		case err != nil:
			out += "err:" + err.Error() + ";"
		default:
			out += r.SexpString(nil) + ";"
		}
	}
	return out
}

// vh_C20_symbols: the numbering of builtin symbols must not depend on the
// iteration order of the function table (symbol comparison makes the
// numbers observable).
func vh_C20_symbols() {
	vMapOrder(false, 0)
	a := vC20Battery(NewZlispWithFuncs(vC20Funcs()))
	same := true
	// natively Go randomises the iteration order itself: repeat
	for i, n := 0, vC20Repeats(); i < n && same; i++ {
		vMapOrder(true, 3)
		b := vC20Battery(NewZlispWithFuncs(vC20Funcs()))
		vMapOrder(false, 0)
		same = a == b
	}
	vAssert(same, "symbol-order-independent-of-map-order")
	vReach("symbols")
}

// vh_C20_decode: the decode leg of JSON/msgpack (a Go map walked in sorted
// order, key order restored) gives the same record under every map order.
func vh_C20_decode() {
	env := vEnvs(1)[0]
	shape := vChoice("shape", 3)
	mk := func() map[string]interface{} {
		m := map[string]interface{}{}
		switch shape {
		case 0:
			m["Atype"] = "hash"
			m["b"] = int64(2)
			m["a"] = int64(1)
		case 1:
			m["b"] = int64(2)
			m["a"] = "x"
			m["c"] = map[string]interface{}{"z": int64(1), "y": int64(2)}
		default:
			m["Atype"] = "hash"
			m["k2"] = int64(2)
			m["zKeyOrder"] = []interface{}{"k2"}
		}
		return m
	}
	vMapOrder(false, 0)
	a := decodeGoToSexpHelper(mk(), 0, env, false).SexpString(nil)
	same := true
	for i, n := 0, vC20Repeats(); i < n && same; i++ {
		vMapOrder(true, 3)
		b := decodeGoToSexpHelper(mk(), 0, env, false).SexpString(nil)
		vMapOrder(false, 0)
		same = a == b
	}
	vAssert(same, "decode-independent-of-map-order")
	vReach("decode")
}

// vh_C20_hashes: evaluation and printing of small hashes and scopes under
// every map order.
func vh_C20_hashes() {
	vFormatOpaque(true)
	env := vEvalEnv(0)
	progs := []string{
		`(def h (hash a: 9001 b: 2 c: 3)) (list (str h) (keys h) (len h) (hget h b:))`,
		`(def h (hash a: 9001 b: 2)) (hdel h a:) (hset h c: 3) (list (str h) (keys h))`,
		`(def h (hash 1 9001 2 2 3 3)) (str h)`,
		`(let [x 9001 y 2 z 3] (+ x (* y z)))`,
		`(defn f [a b c] (list c b a)) (str (f 9001 2 3))`,
	}
	k := vChoice("program", len(progs))
	run := func(e *Zlisp) string {
		out := ""
		for _, f := range vT(e, progs[k], vI(5)) {
			r, err, p := vEval(e, f)
			switch {
			case p:
				return out + "panic"
			case err != nil:
				return out + "err:" + err.Error()
			default:
				out = r.SexpString(nil)
			}
		}
		return out
	}
	vMapOrder(false, 0)
	a := run(env)
	vMapOrder(true, 3)
	b := run(vEvalEnvs[1])
	vMapOrder(false, 0)
	vAssert(a == b, "evaluation-independent-of-map-order")
	vReach("hashes")
}

// vC20Repeats: under the engine one run explores every order (case split);
// natively the runtime picks the order, so a replay repeats the scenario.
func vC20Repeats() int {
	if vSymbolic() {
		return 1
	}
	return 200
}
