//go:build verif

package zygo

// C20 — evaluation is deterministic (Go map iteration order only).  Under
// the engine's nondeterministic-order mode every `range` over a Go map of at
// most 3 entries visits a case-split permutation; each scenario is run once
// in insertion order and once in an arbitrary order and must print the same.

func vC20Funcs() map[string]ZlispUserFunction {
	return map[string]ZlispUserFunction{
		"<":   CompareFunction("<"),
		"car": FirstFunction,
		"cdr": RestFunction,
	}
}

func vC20Battery(env *Zlisp) string {
	out := ""
	q := func(n string) Sexp { return vL(vS(env, "quote"), vS(env, n)) }
	for _, f := range []Sexp{
		vL(vS(env, "<"), q("car"), q("cdr")),
		vL(vS(env, "<"), q("cdr"), q("<")),
		vL(vS(env, "<"), q("zzz"), q("car")),
	} {
		r, err, p := vEval(env, f)
		switch {
		case p:
			out += "panic;"
		case err != nil:
			out += "err:" + err.Error() + ";"
		default:
			out += r.SexpString(nil) + ";"
		}
	}
	return out
}

// vh_C20_symbols: the numbering of builtin symbols must not depend on the
// iteration order of the function table (symbol comparison makes the
// numbers observable).
func vh_C20_symbols() {
	vMapOrder(false, 0)
	a := vC20Battery(NewZlispWithFuncs(vC20Funcs()))
	same := true
	// natively Go randomises the iteration order itself: repeat
	for i, n := 0, vC20Repeats(); i < n && same; i++ {
		vMapOrder(true, 3)
		b := vC20Battery(NewZlispWithFuncs(vC20Funcs()))
		vMapOrder(false, 0)
		same = a == b
	}
	vAssert(same, "symbol-order-independent-of-map-order")
	vReach("symbols")
}

// vh_C20_decode: the decode leg of JSON/msgpack (a Go map walked in sorted
// order, key order restored) gives the same record under every map order.
func vh_C20_decode() {
	env := vEnvs(1)[0]
	shape := vChoice("shape", 3)
	mk := func() map[string]interface{} {
		m := map[string]interface{}{}
		switch shape {
		case 0:
			m["Atype"] = "hash"
			m["b"] = int64(2)
			m["a"] = int64(1)
		case 1:
			m["b"] = int64(2)
			m["a"] = "x"
			m["c"] = map[string]interface{}{"z": int64(1), "y": int64(2)}
		default:
			m["Atype"] = "hash"
			m["k2"] = int64(2)
			m["zKeyOrder"] = []interface{}{"k2"}
		}
		return m
	}
	vMapOrder(false, 0)
	a := decodeGoToSexpHelper(mk(), 0, env, false).SexpString(nil)
	same := true
	for i, n := 0, vC20Repeats(); i < n && same; i++ {
		vMapOrder(true, 3)
		b := decodeGoToSexpHelper(mk(), 0, env, false).SexpString(nil)
		vMapOrder(false, 0)
		same = a == b
	}
	vAssert(same, "decode-independent-of-map-order")
	vReach("decode")
}

// vh_C20_hashes: evaluation and printing of small hashes and scopes under
// every map order.
func vh_C20_hashes() {
	vFormatOpaque(true)
	envs := vStdEnvs(2) // the standard setup: struct, func and the other builders are available
	env := envs[0]
	progs := []string{
		`(def h (hash a: 9001 b: 2 c: 3)) (list (str h) (keys h) (len h) (hget h b:))`,
		`(def h (hash a: 9001 b: 2)) (hdel h a:) (hset h c: 3) (list (str h) (keys h))`,
		`(def h (hash 1 9001 2 2 3 3)) (str h)`,
		`(let [x 9001 y 2 z 3] (+ x (* y z)))`,
		`(defn f [a b c] (list c b a)) (str (f 9001 2 3))`,
		// scopes print their symbols sorted: names that differ only in case,
		// or that are prefixes of one another, must still come out in one order
		`(def p (package "pk" (def ab 1) (def AB 2) (def Ab 9001))) (str p)`,
		`(def p (package "pk" (def a 1) (def aa 2) (def A 9001))) (str p)`,
		`(def h (hash ab: 1 AB: 2 Ab: 9001)) (list (str h) (keys h))`,
		`(def p (package "pk" (def zz 1) (def inner (package "in" (def k 1) (def K 9001))))) (str p)`,
		// error texts that name one of several offending things
		`(func tfn [a:int64 b:string] [n:int64] (return a)) (tfn zeta:1 alpha:2 mu:3)`,
		`(struct Pt [(field X: int64 e:0)]) (Pt Zeta: 1 Alpha: 2 Mu: 3)`,
		`(def h (hash a: 1)) (hget h zeta:) `,
		`(+ 1 undefinedA undefinedB)`,
		// encodings of hashes with a symbol key and a string key of the same spelling
		`(def h (hash a: 1 "a" 2 b: 9001)) (str (unmsgpack (msgpack h)))`,
		`(def h (hash "k" 1 k: 2 "z" 3)) (list (str (json h)) (str (unjson (json h))))`,
		`(def h (hash b: (hash "x" 1 x: 2) a: 9001)) (str (unmsgpack (msgpack h)))`,
	}
	k := vChoice("program", len(progs))
	run := func(e *Zlisp) string {
		out := ""
		for _, f := range vT(e, progs[k], vI(5)) {
			r, err, p := vEval(e, f)
			switch {
			case p:
				return out + "panic"
			case err != nil:
				return out + "err:" + err.Error()
			default:
				out = vMaskPointers(r.SexpString(nil))
			}
		}
		return out
	}
	vMapOrder(false, 0)
	a := run(env)
	vMapOrder(true, 3)
	b := run(envs[1])
	vMapOrder(false, 0)
	vAssert(a == b, "evaluation-independent-of-map-order")
	vReach("hashes")
}

// vC20Repeats: under the engine one run explores every order (case split);
// natively the runtime picks the order, so a replay repeats the scenario.
func vC20Repeats() int {
	if vSymbolic() {
		return 1
	}
	return 200
}

// vC20SymbolOrder renders everything a script can learn about the numbering
// of the symbols in names: the outcome of (< 'a 'b) for every adjacent pair.
func vC20SymbolOrder(env *Zlisp, names []string) string {
	out := make([]byte, 0, len(names))
	q := func(n string) Sexp { return vL(vS(env, "quote"), vS(env, n)) }
	for i := 0; i+1 < len(names); i++ {
		r, err, p := vEval(env, vL(vS(env, "<"), q(names[i]), q(names[i+1])))
		switch {
		case p:
			out = append(out, 'P')
		case err != nil:
			out = append(out, 'E')
		default:
			if b, isB := r.(*SexpBool); isB && b.Val {
				out = append(out, 't')
			} else {
				out = append(out, 'f')
			}
		}
	}
	return string(out)
}

// vh_C20_setup: the standard setup of a sandbox (type names imported from the
// process-global registry, builders, macros) interns symbols; which symbol
// sorts before which must not depend on the order in which Go walks the
// registry maps.  Large maps are walked forwards and backwards (case split).
func vh_C20_setup() {
	vMapOrder(false, 0)
	names := []string{"int", "rune", "error", "symbol", "string", "int64", "float64", "bool", "byte", "comment",
		"packageScope", "packageScopeStack", "hashSelector", "arraySelector", "uint64", "int8", "complex128", "time.Time", "[]",
		"def", "range", "req", "struct", "field", "func", "method", "interface", "var", "package", "hash", "car", "zzz"}
	mk := func() *Zlisp {
		e := NewZlispSandbox()
		e.StandardSetup()
		return e
	}
	a := vC20SymbolOrder(mk(), names)
	same := true
	for i, n := 0, vC20Repeats(); i < n && same; i++ {
		vMapOrder(true, 3)
		e := mk()
		vMapOrder(false, 0)
		same = a == vC20SymbolOrder(e, names)
	}
	vAssert(same, "setup-symbol-order-independent-of-map-order")
	vReach("setup")
}

// vh_C20_fresh: the same program run in two fresh interpreters of one
// process, one after the other, gives the same value and the same error text
// (what the first left in process-global tables must not matter).
var vC20FreshPrograms = []string{
	`(struct Dog [(field Name: string e:0) (field Number: int64 e:1)]) (def d (Dog Name: "rover" Number: 9001)) (str d)`,
	`(def h (hash a: 9001 b: 2)) (str h)`,
	`(struct Kart [(field Id: int64 e:0)]) (method [(p *Kart)] Drive [][s:string] (return "road")) (str (Kart Id: 9001))`,
	`(var a int64) (a = 9001) (str a)`,
	`(func f [a:int64] [n:int64] (return (+ a 1))) (str (f a:9001))`,
	`(interface Driveable [(func driveIt [a:int64] [n:int64])])`,
	`(def p (package "pk" (def Open 9001))) (+ 0 p.Open)`,
	`(defmac inc2 [x] ^(+ ~x 2)) (inc2 9001)`,
	`(def g (gensym)) (str g)`,
	`(str (list (quote a) 9001 "s" 'c' 2.5 [1 2] (hash k: 1)))`,
	`(+ 1 undefinedName)`,
	`(Dog Name: 9001)`,
	`(str (type? (hash a: 1))) `,
	`(str (raw "abc"))`,
	`(def arr [1 2 9001]) { arr[0:2] }`,
	`(msgmap k: 9001)`,
	// listings of Go-backed records (methodls, fieldls) read and then written in place: a later interpreter must get the real listing again
	`(def m (methodls (snoopy cry:"w"))) (def was (aget m 0)) (aset m 0 "scribbled") (str was)`,
	`(def fl (fieldls (weather type:"s"))) (def was (aget fl 0)) (aset fl 0 "scribbled") (aset fl 1 9001) (str was)`,
	`(def m (methodls (vrec i:1))) (def n (len m)) (aset m (- n 1) 9001) (str [n (aget (methodls (vrec i:2)) (- n 1))])`,
	`(def s (snoopy cry:"x")) (str (_method s GetCry:))`,
	`(def r (vrec i:9001 p:(vleaf num:2))) (togo r) (str (_method r Self:))`,
	`(_method (snoopy cry:"x") NoSuchMethod:)`,
}

func vC20RunFresh(k int, hole Sexp) string {
	env := NewZlispSandbox()
	env.StandardSetup()
	env.AddFunction("methodls", GoMethodListFunction)
	env.AddFunction("fieldls", GoFieldListFunction)
	env.AddFunction("_method", CallGoMethodFunction)
	env.AddFunction("togo", ToGoFunction)
	out := ""
	for _, f := range vT(env, vC20FreshPrograms[k], hole) {
		r, err, p := vEval(env, f)
		switch {
		case p:
			return out + "|panic"
		case err != nil:
			return out + "|err:" + err.Error()
		default:
			out = r.SexpString(nil)
		}
	}
	return out
}

func vh_C20_fresh() {
	vFormatOpaque(true)
	vMapOrder(false, 0)
	k := vChoice("program", len(vC20FreshPrograms))
	hole := vI(7)
	a := vC20RunFresh(k, hole)
	b := vC20RunFresh(k, hole)
	c := vC20RunFresh(k, hole)
	vAssert(a == b && b == c, "same-program-same-result-in-a-later-fresh-interpreter")
	vReach("fresh")
	vReachIdx("fresh", k, len(vC20FreshPrograms))
}

// vMaskPointers replaces printed addresses (0x... up to the next
// non-hex-digit) by a fixed word: pointer printing is excluded by the
// property.
func vMaskPointers(s string) string {
	out := make([]byte, 0, len(s))
	for i := 0; i < len(s); {
		if i+1 < len(s) && s[i] == '0' && s[i+1] == 'x' {
			j := i + 2
			for j < len(s) && ((s[j] >= '0' && s[j] <= '9') || (s[j] >= 'a' && s[j] <= 'f')) {
				j++
			}
			out = append(out, "PTR"...)
			i = j
			continue
		}
		out = append(out, s[i])
		i++
	}
	return string(out)
}

// vh_C20_kinds: a program gives its value in a fresh interpreter whatever
// interpreters - of the same or of another configuration (bare sandbox,
// sandbox with the standard setup, full interpreter with the standard setup)
// - the process created and used before it.  Every interpreter of the
// sequence runs the program; each must produce the known value.
var vC20KindPrograms = []struct {
	src, want string
	needStd   bool
}{
	{`(def a [10 20 30]) {a[1] + 1}`, `21`, true},
	{`(def h (hash k: 5)) {h.k * 2}`, `10`, true},
	{`{ x := 3; x += 4; x }`, `7`, true},
	{`{ s := 0; for i := range 4 { s += i }; s }`, `6`, true},
	{`(def a [10 20 30]) { a[0:2] } (len (aget a 0))`, ``, true}, // an error text: must be the same error everywhere
	{`(defn f [n] (cond (<= n 0) 0 (+ n (f (- n 1))))) (f 4)`, `10`, false},
	{`(first (map (fn [u] (* u u)) [7]))`, `49`, false},
	{`(def h (hash a: 1 b: 2)) (hdel h a:) (str h)`, `"{b:2}"`, false},
	{`(< (quote car) (quote cdr))`, ``, false}, // whatever it is, the same everywhere
	{`(def g (gensym)) (== g g)`, `true`, false},
	{`(struct Dog [(field N: int64 e:0)]) (:N (Dog N: 8))`, `8`, true},
	{`(defmac m [x] ^(+ ~x 1)) (m 4)`, `5`, false},
}

func vC20MakeKind(kind int) *Zlisp {
	switch kind {
	case 0:
		return NewZlispSandbox()
	case 1:
		e := NewZlispSandbox()
		e.StandardSetup()
		return e
	default:
		e := NewZlisp()
		e.StandardSetup()
		return e
	}
}

func vC20RunIn(env *Zlisp, src string) string {
	res, err, p := vEvalString(env, src)
	switch {
	case p:
		return "panic"
	case err != nil:
		return "err:" + err.Error()
	}
	return vMaskPointers(res.SexpString(nil))
}

func vh_C20_kinds() {
	vFormatOpaque(true)
	vMapOrder(false, 0)
	k := vChoice("program", len(vC20KindPrograms))
	prog := vC20KindPrograms[k]
	n := 2 + vChoice("n", 2)
	var first [3]string
	var seen [3]bool
	for i := 0; i < n; i++ {
		kind := vChoice("kind", 3)
		env := vC20MakeKind(kind)
		if prog.needStd && kind == 0 {
			vC20RunIn(env, `(+ 1 2)`) // a bare sandbox has no infix/builders: just use it
			continue
		}
		got := vC20RunIn(env, prog.src)
		if prog.want != "" {
			vAssert(got == prog.want, "known-value-in-every-interpreter")
		}
		if seen[kind] {
			vAssert(got == first[kind], "same-result-as-the-earlier-interpreter-of-this-configuration")
		} else {
			seen[kind], first[kind] = true, got
		}
	}
	vReach("kinds")
	vReachIdx("kinds", k, len(vC20KindPrograms))
}
