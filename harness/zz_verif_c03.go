//go:build verif

package zygo

// C03 — lexical scoping: closures capture where they were made, never the
// caller.  Programs over a deliberately tiny pool of names (x, y), run
// through the real pipeline and the reference evaluator (static
// environments: linked frames, fresh frame per activation, closures capture
// their defining frame).

var vC03Programs = []string{
	// 0 caller's local must not be visible to the callee
	`(def x 9001) (defn f [] x) (defn g [] (let [x 9002] (f))) (g)`,
	// 1 the same through a parameter named like the callee's free variable
	`(def x 9001) (defn f [] x) (defn g [x] (f)) (g 9002)`,
	// 2 closure returned from its creator, captured variable outlives it
	`(defn mk [x] (fn [] x)) (def h (mk 9001)) (def x 9002) (h)`,
	// 3 two closures of one activation share the variable
	`(defn mk [x] (list (fn [] (set x (+ x 1))) (fn [] x))) (def p (mk 9001)) ((first p)) ((first p)) ((first (rest p)))`,
	// 4 each activation gets fresh variables
	`(defn mk [x] (fn [] (set x (+ x 1)) x)) (def a (mk 9001)) (def b (mk 9002)) (a) (a) (+ (* 1000 (a)) (b))`,
	// 5 shadowing follows textual nesting
	`(def x 9001) (let [x 9002] (let [y x] (let [x 9003] (+ (* 100 x) y))))`,
	// 6 inner defn sees the enclosing function's parameter, not the global
	`(def x 9001) (defn outer [x] (defn inner [] x) (inner)) (outer 9002)`,
	// 7 closure passed to a function that has a same-named local
	`(defn call [f] (let [x 9002] (f))) (let [x 9001] (call (fn [] x)))`,
	// 8 set updates the binding that is lexically visible
	`(def x 9001) (defn bump [] (set x (+ x 1))) (let [x 9002] (bump) x)`,
	// 9 after 8: the global was the one updated
	`(def x 9001) (defn bump [] (set x (+ x 1))) (let [x 9002] (bump)) x`,
	// 10 closure created in a for loop body sees the loop scope
	`(def fs []) (def x 9001) (for [(def i 0) (< i 2) (set i (+ i 1))] (let [y (+ i x)] (set fs (append fs (fn [] y))))) (+ (* 100 ((aget fs 0))) ((aget fs 1)))`,
	// 11 tail call vs non-tail call of a function that reads a free variable
	`(def x 9001) (defn f [n] (cond (<= n 0) x (f (- n 1)))) (defn g [x] (f 9002)) (g 9003)`,
	// 12 the same, non-tail
	`(def x 9001) (defn f [n] (cond (<= n 0) x (+ 0 (f (- n 1))))) (defn g [x] (f 9002)) (g 9003)`,
	// 13 newScope and letseq
	`(def x 9001) (newScope (def x 9002) (letseq [y x x (+ y 1)] (+ (* 100 x) y)))`,
	// 14 def inside a function does not leak to the caller or the global scope
	`(def x 9001) (defn f [] (def x 9002) x) (f) x`,
	// 15 closure stored in data and called after the creator returned, twice
	`(defn mk [y] (let [x (* y 2)] [(fn [] x) (fn [v] (set x v))])) (def p (mk 9001)) ((aget p 1) 9002) ((aget p 0))`,
	// 16 parameter shadows global inside nested fn
	`(def y 9001) (defn f [y] ((fn [] ((fn [] y))))) (f 9002)`,
	// 18 caller's locals after a callee that tail-recurses from a guarded cond arm inside a let
	`(defn sumto [i acc] (let [m 1] (cond (< i 2) (sumto (+ i m) (+ acc i)) acc))) (defn user [i] (let [r (sumto 0 0) g (fn [] i)] (+ (* 1000 i) (+ (* 10 (g)) r)))) (user 9001)`,
	// 19 the same with the recursion in newScope and the closure created before the call
	`(defn down [n] (newScope (def q n) (cond (> q 0) (down (- q 1)) q))) (defn user [x] (let [g (fn [] x)] (down 2) (+ (g) x))) (user 9001)`,
	// 20 set from two closure levels down reaches the enclosing function's variable
	`(defn outer [v] (defn mid [] (defn inner [] (set v (+ v 9001))) (inner)) (mid) v) (outer 9002)`,
	// 21 sibling closures: the setter is nested one fn deeper than the getter
	`(defn mk [v] (list (fn [] ((fn [] (set v (+ v 1))))) (fn [] v))) (def p (mk 9001)) ((first p)) ((first p)) ((first (rest p)))`,
	// 22 three levels, the variable is a let local of the outermost function; set in argument position
	`(defn mk [a] (let [v a] (fn [] (fn [] (+ 0 (set v (+ v 9002))))))) (def f (mk 9001)) (def g (f)) (g) (+ (g) 0)`,
	// 23 set of a global from three closure levels
	`(def x 9001) (defn mk [] (fn [] (fn [] (fn [] (set x (+ x 1)))))) ((((mk)))) x`,
	// 24 a fn literal in argument position (compiled when the call runs) must not see the caller's caller's locals
	`(defn apply1 [g] (g)) (defn inner [] (apply1 (fn [] v))) (defn outer [v] (inner)) (outer 9001)`,
	// 25 ... nor set them
	`(defn apply1 [g] (g)) (defn inner [] (apply1 (fn [] (set v 9002)))) (defn outer [v] (inner) v) (outer 9001)`,
	// 26 a fn literal in callee position
	`(defn inner [] ((fn [] v))) (defn outer [v] (inner)) (outer 9001)`,
	// 27 the same names bound lexically: the lexical binding wins over the caller's
	`(defn apply1 [g] (g)) (defn inner [v] (apply1 (fn [] v))) (defn outer [v] (inner 9002)) (outer 9001)`,
	// 17 function defined in let refers to let variable after let exits
	`(def g (let [x 9001] (fn [y] (+ x y)))) (let [x 9002] (g 9003))`,
	// closures created inside the *arguments* of calls (compiled when the call runs, not with the body): each activation
	// of a self-recursive function - in and out of tail position - still gets its own variables
	`(defn mk [n acc] (cond (== n 0) acc (mk (- n 1) (append acc (fn [] (+ n 9001)))))) (def fs (mk 3 [])) (+ ((aget fs 0)) (+ (* 10 ((aget fs 1))) (* 100 ((aget fs 2)))))`,
	`(defn mk [n acc] (let [m (* n 2)] (cond (== n 0) acc (mk (- n 1) (append acc (fn [] (+ m 9001))))))) (def fs (mk 3 [])) (+ ((aget fs 0)) (+ (* 10 ((aget fs 1))) (* 100 ((aget fs 2)))))`,
	`(defn keep [g] g) (defn mk [n acc] (cond (== n 0) acc (mk (- n 1) (append acc (keep (fn [] (set n (+ n 9001)) n)))))) (def fs (mk 2 [])) (+ ((aget fs 0)) (+ ((aget fs 0)) (* 1000 ((aget fs 1)))))`,
	`(defn mk [n acc] (cond (== n 0) acc (append (mk (- n 1) acc) (fn [] (+ n 9001))))) (def fs (mk 3 [])) (+ ((aget fs 0)) (+ (* 10 ((aget fs 1))) (* 100 ((aget fs 2)))))`,
	`(def fs []) (defn walk [n] (cond (== n 0) 0 (begin (set fs (append fs (list (fn [] n) (fn [] (set n (+ n 9001)))))) (walk (- n 1))))) (walk 2) ((first (rest (aget fs 0)))) (+ ((first (aget fs 0))) (* 100 ((first (aget fs 1)))))`,
}

func vC03Builtins(ev *vrEval) {}

func vh_C03_programs() {
	vFormatOpaque(true)
	env := vEvalEnv(0)
	k := vChoice("program", len(vC03Programs))
	h1, h2, h3 := vSmallInt("h1"), vSmallInt("h2"), vSmallInt("h3")
	if k == 11 || k == 12 {
		n := vInt64("depth")
		vAssume(n >= 0 && n <= 2)
		h2 = &SexpInt{Val: n}
	}
	forms := vT(env, vC03Programs[k], h1, h2, h3)
	vDiff(env, forms, "scoping")
	vReach("scoping")
}

// ---- grammar-generated bodies over the two-name pool ----

type vC03Gen struct {
	env *Zlisp
}

func (g *vC03Gen) name() Sexp {
	if vChoice("name", 2) == 0 {
		return vS(g.env, "x")
	}
	return vS(g.env, "y")
}

func (g *vC03Gen) expr(d int) Sexp {
	e := g.env
	if d <= 0 {
		switch vChoice("atom", 4) {
		case 0:
			return vS(e, "x")
		case 1:
			return vS(e, "y")
		case 2:
			// z is bound nowhere the body can lexically see - only in the
			// scope of the caller: using it is an error, never the caller's value
			return vS(e, "z")
		default:
			return vSmallInt("lit")
		}
	}
	switch vChoice("form", 7) {
	case 0:
		return g.expr(0)
	case 1:
		return vL(vS(e, "+"), g.expr(d-1), g.expr(d-1))
	case 2:
		return vL(vS(e, "let"), vA(e, g.name(), g.expr(d-1)), g.expr(d-1))
	case 3:
		return vL(vL(vS(e, "fn"), vA(e, g.name()), g.expr(d-1)), g.expr(d-1))
	case 4:
		return vL(vS(e, "begin"), vL(vS(e, "set"), g.name(), g.expr(d-1)), g.expr(d-1))
	case 5:
		return vL(vS(e, "newScope"), vL(vS(e, "def"), g.name(), g.expr(d-1)), g.expr(d-1))
	default:
		// a closure made here and called after this expression returned
		return vL(vL(vS(e, "let"), vA(e, g.name(), g.expr(d-1)), vL(vS(e, "fn"), vA(e), g.expr(d-1))))
	}
}

// vh_C03_grammar: a generated body placed (0) in a function called from a
// scope that shadows both names, (1) in a closure returned by its creator
// and called from a shadowing scope; afterwards the globals are read back.
func vh_C03_grammar() {
	vFormatOpaque(true)
	env := vEvalEnv(0)
	g := &vC03Gen{env: env}
	d := 1
	if vTier() == 1 {
		d = 2
	}
	body := g.expr(d)
	e := env
	s := func(n string) Sexp { return vS(e, n) }
	forms := []Sexp{
		vL(s("def"), s("x"), vSmallInt("gx")),
		vL(s("def"), s("y"), vSmallInt("gy")),
	}
	switch vChoice("skeleton", 3) {
	case 2: // the body two closure levels below the function whose parameter it may use or set
		forms = append(forms,
			vL(s("defn"), s("mk"), vA(e, s("y")), vL(s("fn"), vA(e, s("x")), vL(vL(s("fn"), vA(e), body)))),
			vL(s("def"), s("f"), vL(s("mk"), vSmallInt("my"))),
			vL(s("t"), vL(s("let"), vA(e, s("x"), vSmallInt("cx"), s("y"), vSmallInt("cy"), s("z"), vSmallInt("cz")), vL(s("f"), vSmallInt("arg")))),
			vL(s("t"), vL(s("f"), vSmallInt("arg2"))))
	case 0:
		forms = append(forms,
			vL(s("defn"), s("f"), vA(e, s("x")), body),
			vL(s("t"), vL(s("let"), vA(e, s("x"), vSmallInt("cx"), s("y"), vSmallInt("cy"), s("z"), vSmallInt("cz")), vL(s("f"), vSmallInt("arg")))))
	default:
		forms = append(forms,
			vL(s("defn"), s("mk"), vA(e, s("y")), vL(s("fn"), vA(e, s("x")), body)),
			vL(s("def"), s("f"), vL(s("mk"), vSmallInt("my"))),
			vL(s("t"), vL(s("let"), vA(e, s("x"), vSmallInt("cx"), s("y"), vSmallInt("cy"), s("z"), vSmallInt("cz")), vL(s("f"), vSmallInt("arg")))),
			vL(s("t"), vL(s("f"), vSmallInt("arg2"))))
	}
	forms = append(forms, vL(s("t"), s("x")), vL(s("t"), s("y")))
	vDiff(env, forms, "grammar")
	vReach("grammar")
}

// vh_C03_blocks: statement order inside a block.  A block scope (newScope,
// let with and without bindings, a for body, a function body) holds, in every
// order, a closure definition, a later or earlier def of a name the closure
// uses freely, a set of that name and a second closure; the closures are
// called inside the block and after it (returned in a list).  Closures
// capture the scopes themselves, so a binding added to a captured scope
// afterwards - also to one that was still empty when the closure was made -
// is what the closure sees.
func vh_C03_blocks() {
	vFormatOpaque(true)
	env := vEvalEnv(0)
	e := env
	s := func(n string) Sexp { return vS(e, n) }
	g := &vC03Gen{env: env}
	name := g.name()
	use := vL(s("+"), name, g.expr(0)) // the closure's body mentions the name freely
	stmts := []Sexp{
		vL(s("def"), s("get"), vL(s("fn"), vA(e), use)),
		vL(s("def"), name, g.expr(0)),
		vL(s("def"), s("put"), vL(s("fn"), vA(e, s("v")), vL(s("set"), name, s("v")))),
	}
	// every order of the three statements
	perm := [][3]int{{0, 1, 2}, {0, 2, 1}, {1, 0, 2}, {1, 2, 0}, {2, 0, 1}, {2, 1, 0}}[vChoice("order", 6)]
	seq := []Sexp{stmts[perm[0]], stmts[perm[1]], stmts[perm[2]]}
	tail := []Sexp{vL(s("t"), vL(s("get"))), vL(s("put"), vSmallInt("pv")), vL(s("t"), vL(s("get"))), vL(s("list"), s("get"), s("put"))}
	body := append(append([]Sexp{}, seq...), tail...)
	var block Sexp
	switch vChoice("block", 5) {
	case 0:
		block = vL(append([]Sexp{s("newScope")}, body...)...)
	case 1:
		block = vL(append([]Sexp{s("let"), vA(e)}, body...)...)
	case 2:
		block = vL(append([]Sexp{s("let"), vA(e, s("z"), vI(1))}, body...)...)
	case 3:
		block = vL(append([]Sexp{s("letseq"), vA(e)}, body...)...)
	default:
		block = vL(append([]Sexp{s("begin")}, body...)...) // directly in the function scope
	}
	forms := []Sexp{
		vL(s("def"), s("x"), vSmallInt("gx")),
		vL(s("def"), s("y"), vSmallInt("gy")),
		vL(s("defn"), s("f"), vA(e, s("x")), block),
		// called from a scope that shadows both names; the pair of closures
		// is used again after the creator returned
		vL(s("def"), s("p"), vL(s("let"), vA(e, s("x"), vSmallInt("cx"), s("y"), vSmallInt("cy"), s("z"), vSmallInt("cz")), vL(s("f"), vSmallInt("arg")))),
		vL(s("t"), vL(vL(s("first"), s("p")))),
		vL(vL(s("first"), vL(s("rest"), s("p"))), vSmallInt("pv2")),
		vL(s("t"), vL(vL(s("first"), s("p")))),
		vL(s("t"), s("x")), vL(s("t"), s("y")),
	}
	vDiff(env, forms, "blocks")
	vReach("blocks")
}
