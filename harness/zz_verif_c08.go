//go:build verif

package zygo

// C08 — a sandboxed interpreter cannot reach the outside world.  Every name
// bound in the sandboxed interpreter (bare, and with the standard setup that
// cmd/zygo applies under -sandbox), every macro and every special form of
// the compiler is called with canary arguments.  Under the engine every
// function of os, os/exec, syscall, io/ioutil, net is an effect marker: the
// effect log must stay empty.  Natively (replay) real canaries are used: a
// file that must not be created, a file whose content must not surface.

import (
	"os"
	"path/filepath"
	"sort"
	"strings"
)

var vC08SpecialForms = []string{"and", "or", "cond", "quote", "def", "mdef", "fn", "defn", "begin", "let", "letseq",
	"assert", "defmac", "macexpand", "syntaxQuote", "include", "for", "set", "break", "continue", "newScope", "package", "return"}

// vC08Names lists every name script text can call in env.
func vC08Names(env *Zlisp) []string {
	seen := map[string]bool{}
	var names []string
	add := func(n string) {
		if n != "" && !seen[n] {
			seen[n] = true
			names = append(names, n)
		}
	}
	glob := env.linearstack.elements[0].(*Scope)
	for num := range glob.Map {
		add(env.revsymtable[num])
	}
	for num := range env.macros {
		add(env.revsymtable[num])
	}
	for num := range env.builtins {
		add(env.revsymtable[num])
	}
	for _, n := range vC08SpecialForms {
		add(n)
	}
	sort.Strings(names)
	return names
}

type vC08Canary struct {
	dir, secretFile, touchFile, secret string
}

func vC08MakeCanary() vC08Canary {
	c := vC08Canary{secret: "verif-canary-secret-content"}
	if vSymbolic() {
		c.dir = "/verif-canary"
	} else {
		d, err := os.MkdirTemp("", "verif-c08-")
		if err != nil {
			panic(err)
		}
		c.dir = d
	}
	c.secretFile = filepath.Join(c.dir, "secret.zy")
	c.touchFile = filepath.Join(c.dir, "created-by-script")
	if !vSymbolic() {
		os.WriteFile(c.secretFile, []byte("(def leaked \""+c.secret+"\")\n\""+c.secret+"\"\n"), 0644)
		// a host environment variable holding the secret: a script that gets
		// "$VERIF_C08_SECRET" expanded has read the environment
		os.Setenv("VERIF_C08_SECRET", c.secret)
	}
	return c
}

func (c vC08Canary) cleanup() {
	if !vSymbolic() {
		os.RemoveAll(c.dir)
	}
}

// effect reports whether the evaluation reached the outside world.
func (c vC08Canary) effect(env *Zlisp, res Sexp, err error) bool {
	if vSymbolic() {
		// the effects a native run could observe with these canaries: the
		// secret file being opened/read, a process being started, the
		// touch file being created/written/removed, the canary environment
		// variable being read or changed, the process exiting.
		for _, e := range vEffects() {
			switch {
			case strings.HasPrefix(e, "print:"):
			case strings.Contains(e, "\""+c.secretFile+"\""):
				return true
			case strings.HasPrefix(e, "os/exec.") || strings.Contains(e, "StartProcess") || strings.Contains(e, "ForkExec"):
				return true
			case strings.Contains(e, "\""+c.touchFile+"\"") && !strings.HasPrefix(e, "os.Stat") && !strings.HasPrefix(e, "os.Open("):
				return true
			case strings.HasPrefix(e, "os.ExpandEnv") || strings.HasPrefix(e, "os.Expand("):
				// expansion reads the environment only for $NAME / ${NAME}
				if strings.Contains(e, "$VERIF_C08_") || strings.Contains(e, "${VERIF_C08_") {
					return true
				}
			case strings.Contains(e, "VERIF_C08_") && (strings.Contains(e, "env") || strings.Contains(e, "Env")):
				return true
			case strings.HasPrefix(e, "os.Exit"):
				return true
			}
		}
		return false
	}
	if _, statErr := os.Stat(c.touchFile); statErr == nil {
		return true
	}
	if res != nil && strings.Contains(res.SexpString(nil), c.secret) {
		return true
	}
	if err != nil && strings.Contains(err.Error(), c.secret) {
		return true
	}
	if v, found := env.FindObject("leaked"); found && v != nil {
		return true
	}
	if os.Getenv("VERIF_C08_ENV") != "unset-by-default" && os.Getenv("VERIF_C08_ENV") != "" {
		return true
	}
	return false
}

func vC08Arg(env *Zlisp, k int, c vC08Canary) Sexp {
	switch k {
	case 0:
		return &SexpStr{S: c.secretFile}
	case 1:
		return &SexpStr{S: "touch " + c.touchFile}
	case 2:
		return &SexpStr{S: c.touchFile}
	case 3:
		return &SexpStr{S: "VERIF_C08_ENV"}
	case 4:
		return &SexpStr{S: "touch"}
	case 5:
		return &SexpInt{Val: 1}
	case 6:
		return &SexpStr{S: "$VERIF_C08_SECRET ${VERIF_C08_SECRET}"}
	default:
		return vL(env.MakeSymbol("quote"), env.MakeSymbol("x"))
	}
}

const vC08NArgs = 8

func vC08Run(env *Zlisp, label string) {
	vFormatOpaque(true)
	vBudgetOK()
	names := vC08Names(env)
	name := vPickString("name", names)
	maxArity := 1
	if vTier() == 1 {
		maxArity = 2
	}
	c := vC08MakeCanary()
	defer c.cleanup()
	if vChoice("renamed", 2) == 1 {
		vSetStepBudget(400000)
		vObserve("name", name)
		vC08Renamed(env, name, c, label)
		return
	}
	nargs := vChoice("nargs", maxArity+1)
	args := make([]Sexp, nargs)
	wrapped := false
	for i := range args {
		k := vChoice("arg", vC08NArgs)
		args[i] = vC08Arg(env, k, c)
		// a canary path or command may also arrive inside an array or a
		// list (forms and functions that walk their arguments)
		if i == 0 && k <= 2 {
			switch vChoice("wrap", 4) {
			case 1:
				args[i] = vA(env, args[i])
				wrapped = true
			case 2:
				args[i] = vL(args[i])
				wrapped = true
			case 3:
				args[i] = vA(env, vA(env, args[i]))
				wrapped = true
			}
		}
	}
	vSetStepBudget(400000)
	vObserve("name", name)
	form := vForm(env, name, args...)
	s := func(n string) Sexp { return env.MakeSymbol(n) }
	q := func(x Sexp) Sexp { return vL(s("quote"), x) }
	// the routes by which script text can reach a name
	var forms []Sexp
	route := vChoice("route", 7)
	if wrapped && route != 0 && route != 1 && route != 3 {
		vDone() // wrapped arguments: direct, eval and macro-expansion routes only (bound)
	}
	switch route {
	case 0: // directly
		forms = []Sexp{form}
	case 1: // through eval
		forms = []Sexp{vL(s("eval"), q(form))}
	case 2: // a macro whose body evaluates the form (macros expand in a duplicate interpreter)
		forms = []Sexp{vL(s("defmac"), s("vmac"), vA(env), vL(s("eval"), q(form))), vL(s("vmac"))}
	case 3: // a macro expanding to the form
		forms = []Sexp{vL(s("defmac"), s("vmac2"), vA(env), q(form)), vL(s("vmac2"))}
	case 4: // through an alias
		forms = []Sexp{vL(s("def"), s("valias"), s(name)), vForm(env, "valias", args...)}
	case 5: // through apply
		forms = []Sexp{vL(s("apply"), s(name), vA(env, args...))}
	default: // as the unevaluated operand of a builder that evaluates it in a duplicate interpreter
		forms = []Sexp{vL(s("expectError"), &SexpStr{S: ""}, form)}
	}
	var res Sexp = SexpNull
	var err error
	for _, f := range forms {
		res, err, _ = vEval(env, f)
		if err != nil {
			break
		}
	}
	vAssert(!c.effect(env, res, err), label+"-no-outside-effect")
	vReach(label)
}

func vh_C08_bare() { vC08Run(vEnvs(1)[0], "bare") }

func vh_C08_standard() { vC08Run(vStdEnvs(1)[0], "standard") }


// vC08Renamed: builtins receive the name they were invoked under, and some
// are made by factories that branch on it.  The value bound to name is
// aliased under the name M of each outside-world function (every key of
// SystemFunctions that the sandbox does not bind) and invoked through a
// variable holding the quoted alias, so that M is the call-time name; the
// arguments are a hash and the path of the file that must not be created, or
// that path alone.
func vC08Renamed(env *Zlisp, name string, c vC08Canary, label string) {
	var forbidden []string
	for m := range SystemFunctions() {
		if _, bound := env.FindObject(m); !bound {
			forbidden = append(forbidden, m)
		}
	}
	sort.Strings(forbidden)
	if len(forbidden) == 0 {
		vDone()
	}
	m := vPickString("as", forbidden)
	s := func(n string) Sexp { return env.MakeSymbol(n) }
	touch := &SexpStr{S: c.touchFile}
	var args []Sexp
	switch vChoice("rargs", 4) {
	case 0:
		args = []Sexp{vL(s("hash"), vL(s("quote"), s("k")), vI(1)), touch}
	case 1:
		args = []Sexp{touch}
	case 2:
		args = []Sexp{&SexpStr{S: c.secretFile}}
	default:
		args = []Sexp{&SexpStr{S: "touch " + c.touchFile}}
	}
	forms := []Sexp{
		vL(s("def"), s(m), s(name)),
		vL(s("def"), s("vw"), vL(s("quote"), s(m))),
		vL(append([]Sexp{s("vw")}, args...)...),
	}
	var res Sexp = SexpNull
	var err error
	for _, f := range forms {
		res, err, _ = vEval(env, f)
		if err != nil {
			break
		}
	}
	vAssert(!c.effect(env, res, err), label+"-no-outside-effect-under-another-name")
	vReach(label)
}

// vh_C08_afterplain: the sandbox holds whatever the process did before: an
// ordinary (unsandboxed) interpreter is created, given the standard setup and
// used; then a sandboxed interpreter gets the standard setup.  Every name
// the sandboxed one binds is called directly with no argument and with each
// canary string (the interpreters are built on every path, so the
// exploration is smaller than in the harnesses above).
func vh_C08_afterplain() {
	vFormatOpaque(true)
	vBudgetOK()
	plain := NewZlisp()
	plain.StandardSetup()
	vEvalString(plain, `(def warmup (+ 1 2))`)
	env := NewZlispSandbox()
	env.StandardSetup()
	names := vC08Names(env)
	name := vPickString("name", names)
	c := vC08MakeCanary()
	defer c.cleanup()
	var args []Sexp
	if k := vChoice("arg", 5); k > 0 {
		args = []Sexp{vC08Arg(env, k-1, c)}
		if k == 2 { // a command string: also as (name "touch" path)
			args = []Sexp{&SexpStr{S: "touch"}, &SexpStr{S: c.touchFile}}
		}
	}
	vSetStepBudget(400000)
	vObserve("name", name)
	res, err, _ := vEval(env, vForm(env, name, args...))
	vAssert(!c.effect(env, res, err), "afterplain-no-outside-effect")
	vReach("afterplain")
}
