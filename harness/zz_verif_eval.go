//go:build verif

package zygo

import (
	"bytes"
	"fmt"
)

// The shared differential-evaluation harness: a direct reference evaluator
// for the core language (DESIGN.md "vh_eval" and Appendix A), a host trace
// function registered through the public AddFunction API, and comparison of
// (value, error-ness, trace) with the real pipeline
// (Generator -> VM) on the same Sexp AST.

type vrKind int

const (
	vrNil vrKind = iota
	vrInt
	vrBool
	vrFn
	vrArr
	vrList
	vrStr
	vrSym
	vrLazy
	vrSrc
)

type vrVal struct {
	k     vrKind
	i     int64
	b     bool
	fn    *vrFunc
	elems []vrVal
	s     string
	lazy  *vrThunk
	src   Sexp
}

type vrFunc struct {
	params  []string
	lazy    []bool
	rest    string
	hasRest bool
	body    []Sexp
	env     *vrEnv
	builtin string
}

type vrThunk struct {
	expr   Sexp
	env    *vrEnv
	forced bool
	val    vrVal
}

type vrEnv struct {
	vars   map[string]*vrVal
	parent *vrEnv
}

type vrErr struct{ msg string }
type vrBreak struct{ label string }
type vrContinue struct{ label string }

type vrEval struct {
	trace   []int64
	global  *vrEnv
	unwind  int // max loop iterations
	steps   int
	defined []string // names bound by top-level def/defn so far (in order)
	tcalls   int
	failPlan []bool
}

func vrNewEval() *vrEval {
	return &vrEval{global: &vrEnv{vars: map[string]*vrVal{}}, unwind: 4}
}

func (e *vrEnv) lookup(name string) *vrVal {
	for s := e; s != nil; s = s.parent {
		if v, ok := s.vars[name]; ok {
			return v
		}
	}
	return nil
}

func vrTruthy(v vrVal) bool {
	switch v.k {
	case vrNil:
		return false
	case vrBool:
		return v.b
	case vrInt:
		return v.i != 0
	}
	return true
}

func vrFail(msg string) { panic(vrErr{msg}) }

func vrSymName(x Sexp) (string, bool) {
	s, ok := x.(*SexpSymbol)
	if !ok {
		return "", false
	}
	return s.name, true
}

func vrListElems(x Sexp) []Sexp {
	var out []Sexp
	for {
		p, ok := x.(*SexpPair)
		if !ok {
			return out
		}
		out = append(out, p.Head)
		x = p.Tail
	}
}

// run evaluates forms in order at top level; ok=false if an error aborted.
func (ev *vrEval) run(forms []Sexp) (res vrVal, ok bool) {
	defer func() {
		if r := recover(); r != nil {
			switch r.(type) {
			case vrErr, vrBreak, vrContinue:
				res, ok = vrVal{}, false
				return
			}
			panic(r)
		}
	}()
	for _, f := range forms {
		res = ev.eval(f, ev.global)
	}
	return res, true
}

func (ev *vrEval) evalBody(body []Sexp, env *vrEnv) vrVal {
	var res vrVal
	for _, f := range body {
		res = ev.eval(f, env)
	}
	return res
}

func (ev *vrEval) eval(x Sexp, env *vrEnv) vrVal {
	switch t := x.(type) {
	case *SexpInt:
		return vrVal{k: vrInt, i: t.Val}
	case *SexpBool:
		return vrVal{k: vrBool, b: t.Val}
	case *SexpStr:
		return vrVal{k: vrStr, s: t.S}
	case *SexpSentinel:
		return vrVal{}
	case *SexpSymbol:
		switch t.name {
		case "true":
			return vrVal{k: vrBool, b: true}
		case "false":
			return vrVal{k: vrBool, b: false}
		case "nil", "null":
			return vrVal{}
		}
		if v := env.lookup(t.name); v != nil {
			if v.k == vrLazy {
				return *v // lazy parameters are values until forced
			}
			return *v
		}
		if vrIsBuiltin(t.name) {
			return vrVal{k: vrFn, fn: &vrFunc{builtin: t.name}}
		}
		vrFail("unbound " + t.name)
	case *SexpArray:
		out := vrVal{k: vrArr}
		for _, e := range t.Val {
			out.elems = append(out.elems, ev.eval(e, env))
		}
		return out
	case *SexpPair:
		return ev.evalForm(t, env)
	}
	vrFail("cannot evaluate")
	return vrVal{}
}

func vrIsBuiltin(name string) bool {
	switch name {
	case "+", "-", "*", "<", "<=", ">", ">=", "==", "!=", "t", "list", "array", "apply", "map", "not", "force", "first", "len", "rest", "append", "aget", "substitute":
		return true
	}
	return false
}

func (ev *vrEval) evalForm(p *SexpPair, env *vrEnv) vrVal {
	args := vrListElems(p.Tail)
	if head, ok := vrSymName(p.Head); ok {
		switch head {
		case "quote":
			return ev.quote(args[0])
		case "begin":
			return ev.evalBody(args, env)
		case "def":
			name, _ := vrSymName(args[0])
			v := ev.eval(args[1], env)
			env.vars[name] = &v
			if env == ev.global {
				ev.defined = append(ev.defined, name)
			}
			return v
		case "set":
			name, _ := vrSymName(args[0])
			v := ev.eval(args[1], env)
			if cell := env.lookup(name); cell != nil {
				*cell = v
			} else {
				env.vars[name] = &v
			}
			return v
		case "let", "letseq":
			binds := args[0].(*SexpArray).Val
			inner := &vrEnv{vars: map[string]*vrVal{}, parent: env}
			for i := 0; i+1 < len(binds); i += 2 {
				name, _ := vrSymName(binds[i])
				var v vrVal
				if head == "let" {
					v = ev.eval(binds[i+1], env)
				} else {
					v = ev.eval(binds[i+1], inner)
				}
				inner.vars[name] = &v
			}
			return ev.evalBody(args[1:], inner)
		case "newScope":
			return ev.evalBody(args, &vrEnv{vars: map[string]*vrVal{}, parent: env})
		case "cond":
			for i := 0; i+1 < len(args); i += 2 {
				if vrTruthy(ev.eval(args[i], env)) {
					return ev.eval(args[i+1], env)
				}
			}
			return ev.eval(args[len(args)-1], env)
		case "and", "or":
			var v vrVal
			for _, a := range args {
				v = ev.eval(a, env)
				if vrTruthy(v) == (head == "or") {
					return v
				}
			}
			return v
		case "fn":
			return vrVal{k: vrFn, fn: ev.mkFunc(args[0], args[1:], env)}
		case "defn":
			name, _ := vrSymName(args[0])
			v := vrVal{k: vrFn, fn: ev.mkFunc(args[1], args[2:], env)}
			env.vars[name] = &v
			if env == ev.global {
				ev.defined = append(ev.defined, name)
			}
			return vrVal{}
		case "for":
			return ev.evalFor(args, env)
		case "break":
			label := ""
			if len(args) > 0 {
				label, _ = vrSymName(args[0])
			}
			panic(vrBreak{label})
		case "continue":
			label := ""
			if len(args) > 0 {
				label, _ = vrSymName(args[0])
			}
			panic(vrContinue{label})
		}
	}
	// call: callee first, then the arguments left to right
	callee := ev.eval(p.Head, env)
	if callee.k != vrFn {
		vrFail("not a function")
	}
	f := callee.fn
	var vals []vrVal
	for i, a := range args {
		if f.builtin == "" && i < len(f.lazy) && f.lazy[i] {
			vals = append(vals, vrVal{k: vrLazy, lazy: &vrThunk{expr: a, env: env}})
			continue
		}
		vals = append(vals, ev.eval(a, env))
	}
	return ev.apply(f, vals)
}

func (ev *vrEval) quote(x Sexp) vrVal {
	switch t := x.(type) {
	case *SexpInt:
		return vrVal{k: vrInt, i: t.Val}
	case *SexpSymbol:
		return vrVal{k: vrSym, s: t.name}
	case *SexpPair:
		out := vrVal{k: vrList}
		for _, e := range vrListElems(t) {
			out.elems = append(out.elems, ev.quote(e))
		}
		return out
	case *SexpSentinel:
		return vrVal{}
	case *SexpArray:
		out := vrVal{k: vrArr}
		for _, e := range t.Val {
			out.elems = append(out.elems, ev.quote(e))
		}
		return out
	}
	vrFail("quote")
	return vrVal{}
}

func (ev *vrEval) mkFunc(params Sexp, body []Sexp, env *vrEnv) *vrFunc {
	f := &vrFunc{body: body, env: env}
	ps := params.(*SexpArray).Val
	for i := 0; i < len(ps); i++ {
		name, _ := vrSymName(ps[i])
		if name == "&" {
			f.hasRest = true
			f.rest, _ = vrSymName(ps[i+1])
			break
		}
		lazy := false
		if len(name) > 0 && name[0] == '#' {
			lazy = true
		}
		f.params = append(f.params, name)
		f.lazy = append(f.lazy, lazy)
	}
	return f
}

func (ev *vrEval) apply(f *vrFunc, vals []vrVal) vrVal {
	ev.steps++
	if ev.steps > 200 {
		vrFail("reference step budget")
	}
	if f.builtin != "" {
		return ev.builtin(f.builtin, vals)
	}
	if len(vals) < len(f.params) || (!f.hasRest && len(vals) != len(f.params)) {
		vrFail("arity")
	}
	frame := &vrEnv{vars: map[string]*vrVal{}, parent: f.env}
	for i, name := range f.params {
		v := vals[i]
		frame.vars[name] = &v
	}
	if f.hasRest {
		rest := vrVal{k: vrList, elems: vals[len(f.params):]}
		if len(rest.elems) == 0 {
			rest = vrVal{}
		}
		frame.vars[f.rest] = &rest
	}
	return ev.evalBody(f.body, frame)
}

func (ev *vrEval) force(v vrVal) vrVal {
	if v.k != vrLazy {
		return v
	}
	th := v.lazy
	if !th.forced {
		th.val = ev.eval(th.expr, th.env)
		th.forced = true
	}
	return th.val
}

func (ev *vrEval) builtin(name string, vals []vrVal) vrVal {
	need := func(n int) {
		if len(vals) != n {
			vrFail("arity")
		}
	}
	ints := func() (int64, int64) {
		need(2)
		if vals[0].k != vrInt || vals[1].k != vrInt {
			vrFail("type")
		}
		return vals[0].i, vals[1].i
	}
	switch name {
	case "+":
		a, b := ints()
		return vrVal{k: vrInt, i: a + b}
	case "-":
		a, b := ints()
		return vrVal{k: vrInt, i: a - b}
	case "*":
		a, b := ints()
		return vrVal{k: vrInt, i: a * b}
	case "<":
		a, b := ints()
		return vrVal{k: vrBool, b: a < b}
	case "<=":
		a, b := ints()
		return vrVal{k: vrBool, b: a <= b}
	case ">":
		a, b := ints()
		return vrVal{k: vrBool, b: a > b}
	case ">=":
		a, b := ints()
		return vrVal{k: vrBool, b: a >= b}
	case "==":
		a, b := ints()
		return vrVal{k: vrBool, b: a == b}
	case "!=":
		a, b := ints()
		return vrVal{k: vrBool, b: a != b}
	case "not":
		need(1)
		return vrVal{k: vrBool, b: !vrTruthy(vals[0])}
	case "t":
		need(1)
		if vals[0].k != vrInt {
			vrFail("type")
		}
		k := ev.tcalls
		ev.tcalls++
		if k < len(ev.failPlan) && ev.failPlan[k] {
			vrFail("injected failure")
		}
		ev.trace = append(ev.trace, vals[0].i)
		return vals[0]
	case "list":
		if len(vals) == 0 {
			return vrVal{}
		}
		return vrVal{k: vrList, elems: vals}
	case "array":
		return vrVal{k: vrArr, elems: vals}
	case "force":
		need(1)
		return ev.force(vals[0])
	case "substitute":
		need(1)
		if vals[0].k != vrLazy {
			return vals[0]
		}
		return vrVal{k: vrSrc, src: vals[0].lazy.expr}
	case "first":
		need(1)
		if (vals[0].k != vrList && vals[0].k != vrArr) || len(vals[0].elems) == 0 {
			vrFail("type")
		}
		return vals[0].elems[0]
	case "rest":
		need(1)
		if vals[0].k != vrList || len(vals[0].elems) == 0 {
			vrFail("type")
		}
		if len(vals[0].elems) == 1 {
			return vrVal{}
		}
		return vrVal{k: vrList, elems: vals[0].elems[1:]}
	case "append":
		need(2)
		if vals[0].k != vrArr {
			vrFail("type")
		}
		out := vrVal{k: vrArr, elems: append(append([]vrVal{}, vals[0].elems...), vals[1])}
		return out
	case "aget":
		need(2)
		if vals[0].k != vrArr || vals[1].k != vrInt {
			vrFail("type")
		}
		if vals[1].i < 0 || vals[1].i >= int64(len(vals[0].elems)) {
			vrFail("index")
		}
		return vals[0].elems[vals[1].i]
	case "len":
		need(1)
		switch vals[0].k {
		case vrList, vrArr:
			return vrVal{k: vrInt, i: int64(len(vals[0].elems))}
		case vrNil:
			return vrVal{k: vrInt, i: 0}
		}
		vrFail("type")
	case "apply":
		need(2)
		if vals[0].k != vrFn {
			vrFail("type")
		}
		if vals[1].k != vrArr && vals[1].k != vrList && vals[1].k != vrNil {
			vrFail("type")
		}
		return ev.apply(vals[0].fn, vals[1].elems)
	case "map":
		need(2)
		if vals[0].k != vrFn {
			vrFail("type")
		}
		src := vals[1]
		if src.k != vrArr && src.k != vrList && src.k != vrNil {
			vrFail("type")
		}
		out := vrVal{k: src.k}
		for _, e := range src.elems {
			out.elems = append(out.elems, ev.apply(vals[0].fn, []vrVal{e}))
		}
		return out
	}
	vrFail("no builtin " + name)
	return vrVal{}
}

func (ev *vrEval) evalFor(args []Sexp, env *vrEnv) vrVal {
	label := ""
	if name, ok := vrSymName(args[0]); ok {
		label = name
		args = args[1:]
	}
	ctl := args[0].(*SexpArray).Val
	body := args[1:]
	scope := &vrEnv{vars: map[string]*vrVal{}, parent: env}
	ev.eval(ctl[0], scope)
	broke := false
	for iter := 0; !broke; iter++ {
		if iter > ev.unwind {
			vrFail("reference unwinding bound")
		}
		if !vrTruthy(ev.eval(ctl[1], scope)) {
			break
		}
		func() {
			defer func() {
				if r := recover(); r != nil {
					switch c := r.(type) {
					case vrBreak:
						if c.label == "" || c.label == label {
							broke = true
							return
						}
					case vrContinue:
						if c.label == "" || c.label == label {
							return
						}
					}
					panic(r)
				}
			}()
			ev.evalBody(body, scope)
		}()
		if !broke {
			ev.eval(ctl[2], scope)
		}
	}
	return vrVal{}
}

// ---- comparing the real result with the reference ----

// vrMatch: does the real value denote the reference value?
func vrMatch(real Sexp, want vrVal) bool {
	switch want.k {
	case vrNil:
		return real == SexpNull
	case vrInt:
		r, ok := real.(*SexpInt)
		return ok && r.Val == want.i
	case vrBool:
		r, ok := real.(*SexpBool)
		return ok && r.Val == want.b
	case vrStr:
		r, ok := real.(*SexpStr)
		return ok && r.S == want.s
	case vrSym:
		r, ok := real.(*SexpSymbol)
		return ok && r.name == want.s
	case vrFn:
		_, ok := real.(*SexpFunction)
		return ok
	case vrArr:
		r, ok := real.(*SexpArray)
		if !ok || len(r.Val) != len(want.elems) {
			return false
		}
		for i := range want.elems {
			if !vrMatch(r.Val[i], want.elems[i]) {
				return false
			}
		}
		return true
	case vrList:
		for _, w := range want.elems {
			p, ok := real.(*SexpPair)
			if !ok || !vrMatch(p.Head, w) {
				return false
			}
			real = p.Tail
		}
		return real == SexpNull
	case vrLazy:
		_, ok := real.(*SexpLazyArg)
		return ok
	case vrSrc:
		return vSexpEq(real, want.src)
	}
	return false
}

// ---- the trace function on the real side ----

var vTraceLog []int64

// failure injection (C05): the k-th call of the host function t fails iff
// vFailPlan[k]; vFailPanic selects a Go panic instead of an error return.
var vFailPlan []bool
var vFailPanic bool
var vTraceCalls int

func vTraceFunction(env *Zlisp, name string, args []Sexp) (Sexp, error) {
	if len(args) != 1 {
		return SexpNull, WrongNargs
	}
	i, ok := args[0].(*SexpInt)
	if !ok {
		return SexpNull, WrongType
	}
	k := vTraceCalls
	vTraceCalls++
	if k < len(vFailPlan) && vFailPlan[k] {
		if vFailPanic {
			panic("verif: injected panic in host function")
		}
		return SexpNull, fmt.Errorf("verif: injected failure")
	}
	vTraceLog = append(vTraceLog, i.Val)
	return args[0], nil
}

// vEvalEnv returns a sandboxed interpreter with the trace function
// registered (built once per worker).
var vEvalEnvs [2]*Zlisp

func vEvalEnv(k int) *Zlisp {
	vSetupOnce("evalenv", func() {
		for i := range vEvalEnvs {
			vEvalEnvs[i] = NewZlispSandbox()
			vEvalEnvs[i].AddFunction("t", vTraceFunction)
		}
	})
	vTraceLog = nil
	vTraceCalls = 0
	vFailPlan = nil
	vFailPanic = false
	return vEvalEnvs[k]
}

// vDiff runs forms through both evaluators and asserts agreement.
func vDiff(env *Zlisp, forms []Sexp, label string) (real Sexp, ok bool) {
	ref := vrNewEval()
	want, wantOK := ref.run(forms)
	var res Sexp
	var err error
	panicked := false
	for _, f := range forms {
		res, err, panicked = vEval(env, f)
		if err != nil || panicked {
			break
		}
	}
	vAssert(!panicked, label+"-no-panic")
	if panicked {
		return nil, false
	}
	vAssert((err == nil) == wantOK, label+"-same-errorness")
	if (err == nil) != wantOK {
		return nil, false
	}
	// the trace of side effects is compared even when both fail
	vAssert(len(vTraceLog) == len(ref.trace), label+"-trace-length")
	if len(vTraceLog) == len(ref.trace) {
		for i := range ref.trace {
			vAssert(vTraceLog[i] == ref.trace[i], label+"-trace-order")
		}
	}
	if err != nil {
		vReach(label + ":both-error")
		return nil, false
	}
	vReach(label + ":both-ok")
	if len(ref.trace) > 0 {
		vReach(label + ":nonempty-trace")
	}
	vObserve(label+"-result", res.SexpString(nil))
	vObserve(label+"-tracelen", len(vTraceLog))
	vAssert(vrMatch(res, want), label+"-same-value")
	return res, true
}

// ---- AST building helpers ----

func vS(env *Zlisp, name string) Sexp { return env.MakeSymbol(name) }
func vI(v int64) Sexp                 { return &SexpInt{Val: v} }
func vL(xs ...Sexp) Sexp               { return MakeList(xs) }
func vA(env *Zlisp, xs ...Sexp) Sexp  { return &SexpArray{Val: xs, Env: env} }

// vSmallInt is a symbolic int kept inside +-2^31 (C07 owns the boundaries).
func vSmallInt(name string) Sexp {
	v := vInt64(name)
	// one comparison (no short-circuit fork): -2^31 < v < 2^31
	vAssume(uint64(v+(1<<31)-1) < (1<<32)-2)
	return &SexpInt{Val: v}
}

// vT parses a concrete program text into forms and substitutes the integer
// literals 9001, 9002, ... by holes[0], holes[1], ... (symbolic operands in
// an otherwise concrete program).
func vT(env *Zlisp, text string, holes ...Sexp) []Sexp {
	env.parser.ResetAddNewInput(bytes.NewBuffer([]byte(text + "\n")))
	xs, err := env.parser.ParseTokens()
	if err != nil {
		panic("verif: template does not parse: " + text)
	}
	out := make([]Sexp, 0, len(xs))
	for _, x := range xs {
		if _, isComment := x.(*SexpComment); isComment {
			continue
		}
		out = append(out, vSubst(x, holes))
	}
	return out
}

func vSubst(x Sexp, holes []Sexp) Sexp {
	switch t := x.(type) {
	case *SexpInt:
		if t.Val > 9000 && int(t.Val-9001) < len(holes) {
			return holes[t.Val-9001]
		}
	case *SexpPair:
		return &SexpPair{Head: vSubst(t.Head, holes), Tail: vSubst(t.Tail, holes)}
	case *SexpArray:
		out := make([]Sexp, len(t.Val))
		for i := range t.Val {
			out[i] = vSubst(t.Val[i], holes)
		}
		return &SexpArray{Val: out, Env: t.Env, Typ: t.Typ}
	}
	return x
}
