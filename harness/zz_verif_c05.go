//go:build verif

package zygo

import "fmt"

// C05 — errors are contained: a failed evaluation restores the interpreter.
// The C02 program generators run with a host function that fails on demand:
// "the k-th call fails" is a solver variable for every k, so every failure
// point of every program shape is explored.

func vC05Plan(n int) []bool {
	plan := make([]bool, n)
	for i := range plan {
		plan[i] = vBool("fail")
	}
	return plan
}

// vC05Run evaluates forms with failure injection and checks containment.
func vC05Run(env *Zlisp, forms []Sexp, label string) {
	plan := vC05Plan(4)
	vFailPlan = plan
	vFailPanic = vChoice("failkind", 2) == 1
	ref := vrNewEval()
	ref.failPlan = plan
	want, wantOK := ref.run(forms)
	var res Sexp
	var err error
	panicked := false
	for _, f := range forms {
		res, err, panicked = vEval(env, f)
		if err != nil || panicked {
			break
		}
	}
	vAssert(!panicked, label+"-no-panic-escapes")
	if panicked {
		return
	}
	// an injected failure is returned as an error, never swallowed
	vAssert((err == nil) == wantOK, label+"-failure-is-reported")
	if (err == nil) != wantOK {
		return
	}
	if err == nil {
		vAssert(vrMatch(res, want), label+"-value")
		vReach(label + ":no-failure")
	} else {
		vReach(label + ":failed")
	}
	// side effects up to the failure are exactly the reference's
	vAssert(len(vTraceLog) == len(ref.trace), label+"-trace-length")
	// the interpreter is back at rest
	vC04AtRest(env, label+"-after-failure")
	// definitions completed before the failure are intact, nothing else is bound
	vFailPlan = nil
	for _, name := range []string{"a", "f", "g", "mk", "twice", "x", "i", "c"} {
		cell := ref.global.vars[name]
		got, err2, p2 := vEval(env, env.MakeSymbol(name))
		vAssert(!p2, label+"-followup-no-panic")
		if p2 {
			return
		}
		if cell == nil {
			vAssert(err2 != nil, label+"-nothing-leaked-into-globals")
		} else {
			vAssert(err2 == nil && vrMatch(got, *cell), label+"-definitions-intact")
		}
	}
	// later evaluations behave normally
	r3, err3, p3 := vEval(env, vL(vS(env, "+"), vI(1), vI(2)))
	vAssert(!p3 && err3 == nil && vrMatch(r3, vrVal{k: vrInt, i: 3}), label+"-usable-afterwards")
	r4, err4, p4 := vEvalString(env, "")
	vAssert(!p4 && err4 == nil && r4 == SexpNull, label+"-empty-input-is-nil")
	vC04AtRest(env, label+"-after-followups")
}

func vh_C05_expr()   { vFormatOpaque(true); env := vEvalEnv(0); vC05Run(env, vProg_expr(env), "expr") }
func vh_C05_loops()  { vFormatOpaque(true); env := vEvalEnv(0); vC05Run(env, vProg_loops(env), "loops") }
func vh_C05_calls()  { vFormatOpaque(true); env := vEvalEnv(0); vC05Run(env, vProg_calls(env), "calls") }

// vh_C05_compile: a malformed nested special form at every evaluated
// position of every special form must surface as an error (compile errors
// are not swallowed into a successful result).
// vC05BadForm: a malformed nested special form (or, kind 3.., a form that
// fails at run time) at one of the evaluated positions of a special form.
var vC05LastPos int

func vC05BadForm(env *Zlisp, runtimeToo bool) Sexp {
	e := env
	s := func(n string) Sexp { return vS(e, n) }
	nbad := 3
	if runtimeToo {
		nbad = 6
	}
	var bad Sexp
	switch vChoice("bad", nbad) {
	case 0:
		bad = vL(s("let")) // no bindings
	case 1:
		bad = vL(s("cond"), vI(1), vI(2)) // missing default
	case 2:
		bad = vL(s("fn")) // no parameter list
	case 3:
		bad = vL(s("nosuchfunction"), vI(1)) // fails at run time
	case 4:
		bad = vL(s("+"), vI(1), s("unboundname"))
	default:
		bad = vL(s("first"), vA(e)) // a builtin that reports an error
	}
	ok := vI(1)
	ctl := func(init, test, adv Sexp) Sexp { return vA(e, init, test, adv) }
	i0 := vL(s("def"), s("i"), vI(0))
	lt := vL(s("<"), s("i"), vI(1))
	inc := vL(s("set"), s("i"), vL(s("+"), s("i"), vI(1)))
	var f Sexp
	vC05LastPos = vChoice("pos", 24)
	switch vC05LastPos {
	case 0:
		f = vL(s("and"), ok, bad)
	case 1:
		f = vL(s("and"), bad, ok)
	case 2:
		f = vL(s("or"), vI(0), bad)
	case 3:
		f = vL(s("cond"), ok, bad, ok)
	case 4:
		f = vL(s("cond"), bad, ok, ok)
	case 5:
		f = vL(s("cond"), vI(0), ok, bad)
	case 6:
		f = vL(s("begin"), bad, ok)
	case 7:
		f = vL(s("let"), vA(e, s("x"), bad), ok)
	case 8:
		f = vL(s("let"), vA(e, s("x"), ok), bad, ok)
	case 9:
		f = vL(s("def"), s("x"), bad)
	case 10:
		f = vL(s("for"), ctl(i0, lt, inc), bad)
	case 11:
		f = vL(s("+"), ok, bad)
	case 12:
		f = vL(vL(s("fn"), vA(e, s("x")), bad), ok)
	case 13:
		f = vL(s("newScope"), bad, ok)
	case 14:
		f = vL(s("letseq"), vA(e, s("x"), ok, s("y"), bad), ok)
	case 15:
		f = vL(s("set"), s("x"), bad)
	case 16:
		f = vL(s("for"), ctl(vL(s("def"), s("i"), bad), lt, inc), ok)
	case 17:
		f = vL(s("for"), ctl(i0, vL(s("and"), lt, bad), inc), ok)
	case 18:
		f = vL(s("for"), ctl(i0, lt, vL(s("begin"), bad, inc)), ok)
	case 19: // inside a let inside the body of the inner of two loops
		f = vL(s("for"), ctl(i0, lt, inc), vL(s("for"), ctl(vL(s("def"), s("j"), vI(0)), vL(s("<"), s("j"), vI(1)), vL(s("set"), s("j"), vI(1))), vL(s("let"), vA(e, s("q"), ok), bad)))
	case 20: // inside the body of a function that is being defined and called
		f = vL(s("begin"), vL(s("defn"), s("bf"), vA(e), vL(s("let"), vA(e, s("q"), ok), bad)), vL(s("bf")))
	case 21: // argument of a call of a user function
		f = vL(s("begin"), vL(s("defn"), s("id"), vA(e, s("u")), s("u")), vL(s("id"), bad))
	case 22: // inside a macro template that is expanded
		f = vL(s("begin"), vL(s("defmac"), s("mm"), vA(e), vL(s("quote"), bad)), vL(s("mm")))
	default: // inside an array literal
		f = vA(e, ok, bad)
	}
	return f
}

// vh_C05_compile: a malformed nested special form at every evaluated
// position of every special form must surface as an error (compile errors
// are not swallowed into a successful result).
func vh_C05_compile() {
	vFormatOpaque(true)
	env := vEvalEnv(0)
	f := vC05BadForm(env, false)
	_, err, panicked := vEval(env, f)
	vAssert(!panicked, "compile-no-panic")
	if panicked {
		return
	}
	vAssert(err != nil, "compile-error-not-swallowed")
	vC04AtRest(env, "compile-after-failure")
	r3, err3, p3 := vEval(env, vL(vS(env, "+"), vI(1), vI(2)))
	vAssert(!p3 && err3 == nil && vrMatch(r3, vrVal{k: vrInt, i: 3}), "compile-usable-afterwards")
	vReach("compile")
}

// vh_C05_definition: the same malformed forms inside the body of a function
// that is defined but never called: the definition itself must fail (the
// body is compiled when the function is defined), the name must stay
// unbound, and the interpreter is at rest.  An error that only shows up when
// the function is called later was swallowed at definition time.
func vh_C05_definition() {
	vFormatOpaque(true)
	env := vEvalEnv(0)
	f := vC05BadForm(env, false)
	switch vC05LastPos {
	case 11, 12, 20, 21, 22, 23:
		vDone() // operands of calls, nested definitions, macro bodies and array literals are compiled when they run, by design
	}
	s := func(n string) Sexp { return vS(env, n) }
	var def Sexp
	switch vChoice("definer", 3) {
	case 0:
		def = vL(s("defn"), s("wrapped"), vA(env), f)
	case 1:
		def = vL(s("def"), s("wrapped"), vL(s("fn"), vA(env), f))
	default:
		def = vL(s("defn"), s("wrapped"), vA(env, s("u")), vL(s("let"), vA(env, s("w"), s("u")), f, s("w")))
	}
	_, err, panicked := vEval(env, def)
	vAssert(!panicked, "definition-no-panic")
	if panicked {
		return
	}
	vAssert(err != nil, "definition-with-a-malformed-body-is-rejected")
	vC04AtRest(env, "definition-after-failure")
	_, err2, p2 := vEval(env, s("wrapped"))
	vAssert(!p2 && err2 != nil, "rejected-definition-binds-nothing")
	r3, err3, p3 := vEval(env, vL(vS(env, "+"), vI(1), vI(2)))
	vAssert(!p3 && err3 == nil && vrMatch(r3, vrVal{k: vrInt, i: 3}), "definition-usable-afterwards")
	vReach("definition")
}

// parse-time failures: a text that fails to parse (unfinished form, bad
// token, stray bracket) is reported as an error, and the next evaluation
// behaves as in an interpreter that never saw the failing text.
var vC05BadTexts = []string{
	`(def b (+ a 1`, `(def b [1 2`, `(def b "abc`, `{a = `, `(def b 1))`, `(def b 'ab')`, `(def b "a\qz")`, "(def b `raw", `/* open comment`, `(def b ]`,
	// failures in the middle of each lexer sub-state that accumulates something: numeric escapes in strings and chars, number spellings
	`(def b "ab\x4g")`, `(def b "\u12zz")`, `(def b "\U0001zzzz")`, `(def b "q\x4`, `(def b '\x4g')`, `(def b '\u00`, `(def b 0x1g)`, `(def b 1e+)`, `(def b 12ab)`, `(def b 0b12)`, `(def b 0o9)`, `(def b 3UL)`,
}

func vh_C05_parse() {
	vFormatOpaque(true)
	env := vEvalEnv(0)
	twin := vEvalEnvs[1]
	h := vSmallInt("h")
	for _, e := range []*Zlisp{env, twin} {
		if _, err, p := vEval(e, vL(vS(e, "def"), vS(e, "a"), h)); err != nil || p {
			vAssert(false, "parse-setup")
			return
		}
	}
	bad := vC05BadTexts[vChoice("bad", len(vC05BadTexts))]
	_, err, p := vEvalString(env, bad)
	vAssert(!p, "parse-failure-no-panic")
	if p {
		return
	}
	vAssert(err != nil, "parse-failure-is-reported")
	vC04AtRest(env, "after-parse-failure")
	// follow-ups, compared with the twin that never saw the bad text
	for _, txt := range []string{`(def d 10) (+ d a)`, `b`, `(+ a 1)`, ``, `"\x41\u0042"`, `'\x43'`, `(+ 0x10 0b11 0o7 1e1)`, `"\U00000044z"`} {
		r1, e1, p1 := vEvalString(env, txt)
		r2, e2, p2 := vEvalString(twin, txt)
		vAssert(!p1 && !p2, "followup-no-panic")
		if p1 || p2 {
			return
		}
		vAssert((e1 == nil) == (e2 == nil), "followup-same-errorness-as-twin")
		if e1 == nil && e2 == nil {
			vAssert(vSexpEq(r1, r2), "followup-same-value-as-twin")
		}
	}
	vReach("parse")
}

// vC05RunAll evaluates every form (a failure does not stop the sequence: the
// later forms are the "arbitrary further evaluations" of the property) in
// the real interpreter and in the reference evaluator under one failure
// plan, and compares, form by form, error-ness and value, and at the end the
// effect trace; after every form the four stacks are at rest.
func vC05RunAll(env *Zlisp, forms []Sexp, label string) {
	plan := vC05Plan(4)
	vFailPlan = plan
	vFailPanic = vChoice("failkind", 2) == 1
	ref := vrNewEval()
	ref.failPlan = plan
	failures := 0
	for _, f := range forms {
		want, wantOK := ref.run([]Sexp{f})
		res, err, panicked := vEval(env, f)
		vAssert(!panicked, label+"-no-panic-escapes")
		if panicked {
			return
		}
		vAssert((err == nil) == wantOK, label+"-same-errorness-as-reference")
		if (err == nil) != wantOK {
			return
		}
		if err == nil {
			vAssert(vrMatch(res, want), label+"-same-value-as-reference")
		} else {
			failures++
		}
		vC04AtRest(env, label)
	}
	vAssert(len(vTraceLog) == len(ref.trace), label+"-trace-length")
	if len(vTraceLog) == len(ref.trace) {
		for i := range ref.trace {
			vAssert(vTraceLog[i] == ref.trace[i], label+"-trace-order")
		}
	}
	if failures > 0 {
		vReach(label + ":failed")
	} else {
		vReach(label + ":no-failure")
	}
}

// vh_C05_lazy: failures inside lazy forcing, eval-style builtins and
// callbacks (apply, map), followed by further evaluations that force the
// same lazy argument again, call the same closures again, and read the
// definitions made so far.
var vC05LazyPrograms = []string{
	// a lazy argument that outlives the call: forced now, later and again
	`(defn promise [#x] (fn [] (force #x))) (def pr (promise (t 9001))) (pr) (pr) (+ (pr) 1)`,
	`(def keep nil) (defn k [#p] (set keep (fn [] (+ (force #p) (t 9002)))) 0) (k (t 9001)) (keep) (keep) (keep)`,
	// forced inside the call, once and twice, under a let of the caller
	`(defn f [#p q] (+ (force #p) q)) (def r1 (f (t 9001) (t 9002))) (let [z 1] (f (t z) (t 9001))) (t 5)`,
	`(defn f [#p] (+ (force #p) (force #p))) (f (t 9001)) (f (t 9002)) (t 5)`,
	`(defn f [#p #r] (+ (force #r) (force #p))) (f (t 9001) (t 9002)) (f (t 1) (t 2))`,
	// the forcing happens inside a callback
	`(defn f [#p] (map (fn [u] (+ u (force #p))) [(t 1) (t 2)])) (f (t 9001)) (f (t 9002))`,
	`(defn f [#p] (apply (fn [u v] (+ u (+ v (force #p)))) [(t 1) (t 2)])) (f (t 9001)) (t 5)`,
	// callbacks and nested calls without laziness
	`(def done []) (defn w [u] (set done (append done (t u))) u) (map w [9001 9002 3]) (len done) (w 4) (len done)`,
	`(defn g [u] (+ (t u) 1)) (defn h [u] (let [y (g u)] (* y (g y)))) (h 9001) (h 1) (t 5)`,
	`(defn f [#p q] (cond (< q 0) (force #p) q)) (f (t 9001) (t 9002)) (f (t 1) (t (- 0 1))) (t 5)`,
}

func vh_C05_lazy() {
	vFormatOpaque(true)
	env := vEvalEnv(0)
	k := vChoice("program", len(vC05LazyPrograms))
	forms := vT(env, vC05LazyPrograms[k], vSmallInt("h1"), vSmallInt("h2"))
	vC05RunAll(env, forms, "lazy")
	vReachIdx("lazy", k, len(vC05LazyPrograms))
}

// vh_C05_redefinition: a definition that fails leaves the earlier definition
// of the same name intact.  A function, a variable, a macro, a typed func and
// a struct are defined; then a redefinition with a malformed body (a compile
// error in an eagerly compiled position, or a failing right-hand side) is
// evaluated and must report an error; every later use of the name behaves as
// in a twin interpreter that never saw the failing redefinition.
var vC05Redefs = []struct {
	define, redefine string
	uses             []string
}{
	{`(defn thing [u] (+ u 9001))`, `(defn thing [u] (cond (let) 1 2))`, []string{`(thing 1)`, `(str thing)`}},
	{`(defn thing [u] (+ u 9001))`, `(defn thing [u] (let [w u] (fn)))`, []string{`(thing 2)`}},
	{`(def thing 9001)`, `(def thing (let))`, []string{`(+ thing 1)`}},
	{`(def thing 9001)`, `(def thing (+ 1 (nosuchfunction)))`, []string{`(+ thing 1)`}},
	{`(defmac thing [x] ^(+ ~x 9001))`, `(defmac thing [x] (break))`, []string{`(thing 1)`, `(macexpand (thing 2))`, `(defn user [] (thing 3)) (user)`}},
	{`(defmac thing [x] ^(+ ~x 9001))`, `(defmac thing [x] (cond (let) 1 2))`, []string{`(thing 1)`}},
	{`(defmac thing [x] ^(+ ~x 9001))`, `(defmac thing [(quote bad)] 1)`, []string{`(thing 1)`}},
	{`(func thing [a:int64] [n:int64] (return (+ a 9001)))`, `(func thing [a:nosuchtype] [n:int64] (return a))`, []string{`(thing 1)`, `(thing a:2)`}},
	{`(struct Thing [(field N: int64 e:0)])`, `(struct Thing [(field N: nosuchtype e:0)])`, []string{`(:N (Thing N: 9001))`, `(Thing N: "str")`}},
	{`(defn thing [u] (+ u 9001))`, `(set thing (let))`, []string{`(thing 1)`}},
}

func vh_C05_redefinition() {
	vFormatOpaque(true)
	envs := vStdEnvs(2)
	env, twin := envs[0], envs[1]
	k := vChoice("redef", len(vC05Redefs))
	rd := vC05Redefs[k]
	h := vSmallInt("h")
	evalAll := func(e *Zlisp, src string) (Sexp, error, bool) {
		var res Sexp = SexpNull
		var err error
		p := false
		for _, f := range vT(e, src, h) {
			res, err, p = vEval(e, f)
			if err != nil || p {
				break
			}
		}
		return res, err, p
	}
	for _, e := range []*Zlisp{env, twin} {
		if _, err, p := evalAll(e, rd.define); err != nil || p {
			vAssert(false, "redefinition-setup")
			return
		}
	}
	_, err, p := evalAll(env, rd.redefine)
	vAssert(!p, "failed-redefinition-no-panic")
	if p {
		return
	}
	vAssert(err != nil, "malformed-redefinition-is-rejected")
	vC04AtRest(env, "after-failed-redefinition")
	for _, use := range rd.uses {
		r1, e1, p1 := evalAll(env, use)
		r2, e2, p2 := evalAll(twin, use)
		vAssert(!p1 && !p2, "redefinition-followup-no-panic")
		if p1 || p2 {
			return
		}
		vAssert((e1 == nil) == (e2 == nil), "earlier-definition-behaves-as-in-the-twin")
		if e1 == nil && e2 == nil {
			vAssert(vSexpEq(r1, r2) || r1.SexpString(nil) == r2.SexpString(nil), "earlier-definition-same-value-as-in-the-twin")
		}
	}
	vReachIdx("redefinition", k, len(vC05Redefs))
}

// vh_C05_hostapply: an embedding program's own builtin calls back into the
// interpreter (env.Apply on a script function), the callback fails, the
// builtin handles that failure itself and returns a normal value.  The
// failure stays inside the callback: the program goes on as written, its
// value is right, the stacks are at rest afterwards.
func vh_C05_hostapply() {
	vFormatOpaque(true)
	env := vEvalEnv(0)
	env.AddFunction("hostapply", func(env *Zlisp, name string, args []Sexp) (Sexp, error) {
		if len(args) < 1 {
			return SexpNull, fmt.Errorf("verif: hostapply needs a function")
		}
		f, isF := args[0].(*SexpFunction)
		if !isF {
			return SexpNull, fmt.Errorf("verif: hostapply needs a function")
		}
		res, err := env.Apply(f, args[1:])
		if err != nil {
			return &SexpStr{S: "failed"}, nil // handled here
		}
		return res, nil
	})
	h := vSmallInt("h")
	fails := vChoice("failure", 4)
	bad := []string{
		`(defn cb [x] (+ x nosuchname))`,
		`(defn cb [x] (let [y x] (cond (< y 3000000000) (car 7) y)))`,
		`(defn cb [x] (for [(def i 0) (< i 3) (set i (+ i 1))] (cond (== i 1) (nosuchfn i) i)))`,
		`(defn inner [z] (+ z nosuchname)) (defn cb [x] (+ 1 (inner x)))`,
	}[fails]
	site := vChoice("site", 6)
	prog := []string{
		`(def r (hostapply cb 9001)) (list r 30 9001)`,
		`(defn g [] (hostapply cb 9001) 30) (list (g) 9001)`,
		`(hostapply cb 9001) (+ 9001 1)`,
		`(defn g [] (let [r (hostapply cb 9001)] (list r 9001))) (g)`,
		`(def acc []) (for [(def k 0) (< k 2) (set k (+ k 1))] (hostapply cb k) (set acc (append acc k))) (list acc 9001)`,
		`(begin (hostapply cb 1) (hostapply cb 2) (+ 9001 2))`,
	}[site]
	want := []string{
		`(list "failed" 30 9001)`,
		`(list 30 9001)`,
		`(+ 9001 1)`,
		`(list "failed" 9001)`,
		`(list [0 1] 9001)`,
		`(+ 9001 2)`,
	}[site]
	var res Sexp
	for _, f := range vT(env, bad+" "+prog, h) {
		var err error
		var p bool
		res, err, p = vEval(env, f)
		vAssert(!p, "hostapply-no-panic")
		vAssert(err == nil, "handled-callback-failure-does-not-fail-the-program")
		if p || err != nil {
			return
		}
		vC04AtRest(env, "after-handled-callback-failure")
	}
	twin := vEvalEnvs[1]
	var exp Sexp
	for _, f := range vT(twin, want, h) {
		var err error
		var p bool
		exp, err, p = vEval(twin, f)
		if err != nil || p {
			vAssert(false, "expected-value-evaluates")
			return
		}
	}
	vAssert(vSexpEq(res, exp), "program-continues-after-a-handled-callback-failure")
	r2, e2, p2 := vEvalString(env, `(+ 1 2)`)
	ri, isInt := r2.(*SexpInt)
	vAssert(!p2 && e2 == nil && isInt && ri.Val == 3, "interpreter-usable-afterwards")
	vReachIdx("hostapply", site, 6)
}
