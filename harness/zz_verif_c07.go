//go:build verif

package zygo

// C07 — numbers compare and compute exactly as specified.

var vC07ops = []string{"<", ">", "<=", ">=", "==", "!="}

// vNum builds a numeric Sexp of kind k with a symbolic payload.
//   0 int64, 1 uint64, 2 char(int32), 3 float64
func vNum(k int, name string) Sexp {
	switch k {
	case 0:
		return &SexpInt{Val: vInt64(name)}
	case 1:
		return &SexpUint64{Val: vUint64(name)}
	case 2:
		return &SexpChar{Val: rune(vInt32(name))}
	default:
		return &SexpFloat{Val: vFloat64(name)}
	}
}

func vAsFloat(x Sexp) (float64, bool) {
	switch t := x.(type) {
	case *SexpInt:
		return float64(t.Val), true
	case *SexpChar:
		return float64(t.Val), true
	case *SexpFloat:
		return t.Val, true
	}
	return 0, false
}

// vRefCompare is the specification: the truth value of (op a b).
// ok=false when the statement says nothing about this pair.
func vRefCompare(op string, a, b Sexp) (res bool, ok bool) {
	lt, eq := false, false
	switch x := a.(type) {
	case *SexpInt:
		switch y := b.(type) {
		case *SexpInt:
			lt, eq = x.Val < y.Val, x.Val == y.Val
			goto have
		case *SexpChar:
			lt, eq = x.Val < int64(y.Val), x.Val == int64(y.Val)
			goto have
		}
	case *SexpChar:
		switch y := b.(type) {
		case *SexpInt:
			lt, eq = int64(x.Val) < y.Val, int64(x.Val) == y.Val
			goto have
		case *SexpChar:
			lt, eq = x.Val < y.Val, x.Val == y.Val
			goto have
		}
	case *SexpUint64:
		if y, isU := b.(*SexpUint64); isU {
			lt, eq = x.Val < y.Val, x.Val == y.Val
			goto have
		}
		return false, false
	}
	{
		fa, oka := vAsFloat(a)
		fb, okb := vAsFloat(b)
		if !oka || !okb {
			return false, false
		}
		if fa != fa || fb != fb { // NaN: unordered, unequal
			return op == "!=", true
		}
		lt, eq = fa < fb, fa == fb
	}
have:
	switch op {
	case "<":
		return lt, true
	case ">":
		return !lt && !eq, true
	case "<=":
		return lt || eq, true
	case ">=":
		return !lt, true
	case "==":
		return eq, true
	default:
		return !eq, true
	}
}

// vh_C07_compare: every comparison operator on every pair of numeric
// kinds, full-width symbolic payloads, through the script-level builtin.
func vh_C07_compare() {
	env := NewZlispSandbox()
	ka := vChoice("kindA", 4)
	kb := vChoice("kindB", 4)
	a := vNum(ka, "a")
	b := vNum(kb, "b")
	op := vC07ops[vChoice("op", len(vC07ops))]
	want, specified := vRefCompare(op, a, b)
	if !specified {
		vDone()
	}
	fn, found := env.FindObject(op)
	if !found {
		vAssert(false, "operator-bound")
		return
	}
	f, isF := fn.(*SexpFunction)
	if !isF || f.user == false {
		vAssert(false, "operator-is-builtin")
		return
	}
	res, err := f.userfun(env, op, []Sexp{a, b})
	if err != nil {
		vAssert(false, "compare-no-error")
		return
	}
	rb, isB := res.(*SexpBool)
	if !isB {
		vAssert(false, "compare-returns-bool")
		return
	}
	vReach("compared")
	vAssert(rb.Val == want, "compare-matches-spec")
}
