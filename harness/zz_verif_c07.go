//go:build verif

package zygo

// C07 — numbers compare and compute exactly as specified.

var vC07ops = []string{"<", ">", "<=", ">=", "==", "!="}

// vNum builds a numeric Sexp of kind k with a symbolic payload.
//   0 int64, 1 uint64, 2 char(int32), 3 float64
func vNum(k int, name string) Sexp {
	switch k {
	case 0:
		return &SexpInt{Val: vInt64(name)}
	case 1:
		return &SexpUint64{Val: vUint64(name)}
	case 2:
		return &SexpChar{Val: rune(vInt32(name))}
	default:
		return &SexpFloat{Val: vFloat64(name)}
	}
}

func vAsFloat(x Sexp) (float64, bool) {
	switch t := x.(type) {
	case *SexpInt:
		return float64(t.Val), true
	case *SexpChar:
		return float64(t.Val), true
	case *SexpFloat:
		return t.Val, true
	case *SexpUint64:
		return float64(t.Val), true
	}
	return 0, false
}

// vRefCompare is the specification: the truth value of (op a b).
// ok=false when the statement says nothing about this pair.
func vRefCompare(op string, a, b Sexp) (res bool, ok bool) {
	lt, eq := false, false
	switch x := a.(type) {
	case *SexpInt:
		switch y := b.(type) {
		case *SexpInt:
			lt, eq = x.Val < y.Val, x.Val == y.Val
			goto have
		case *SexpChar:
			lt, eq = x.Val < int64(y.Val), x.Val == int64(y.Val)
			goto have
		}
	case *SexpChar:
		switch y := b.(type) {
		case *SexpInt:
			lt, eq = int64(x.Val) < y.Val, int64(x.Val) == y.Val
			goto have
		case *SexpChar:
			lt, eq = x.Val < y.Val, x.Val == y.Val
			goto have
		}
	case *SexpUint64:
		if y, isU := b.(*SexpUint64); isU {
			lt, eq = x.Val < y.Val, x.Val == y.Val
			goto have
		}
		return false, false
	}
	{
		// comparing a uint64 with a float (either side) is not specified
		if _, isU := a.(*SexpUint64); isU {
			return false, false
		}
		if _, isU := b.(*SexpUint64); isU {
			return false, false
		}
		fa, oka := vAsFloat(a)
		fb, okb := vAsFloat(b)
		if !oka || !okb {
			return false, false
		}
		if fa != fa || fb != fb { // NaN: unordered, unequal
			return op == "!=", true
		}
		lt, eq = fa < fb, fa == fb
	}
have:
	switch op {
	case "<":
		return lt, true
	case ">":
		return !lt && !eq, true
	case "<=":
		return lt || eq, true
	case ">=":
		return !lt, true
	case "==":
		return eq, true
	default:
		return !eq, true
	}
}

// vh_C07_compare: every comparison operator on every pair of numeric
// kinds, full-width symbolic payloads, through the script-level builtin.
func vh_C07_compare() {
	env := NewZlispSandbox()
	ka := vChoice("kindA", 4)
	kb := vChoice("kindB", 4)
	a := vNum(ka, "a")
	b := vNum(kb, "b")
	op := vC07ops[vChoice("op", len(vC07ops))]
	want, specified := vRefCompare(op, a, b)
	if !specified {
		vDone()
	}
	fn, found := env.FindObject(op)
	if !found {
		vAssert(false, "operator-bound")
		return
	}
	f, isF := fn.(*SexpFunction)
	if !isF || f.user == false {
		vAssert(false, "operator-is-builtin")
		return
	}
	res, err := f.userfun(env, op, []Sexp{a, b})
	if err != nil {
		vAssert(false, "compare-no-error")
		return
	}
	rb, isB := res.(*SexpBool)
	if !isB {
		vAssert(false, "compare-returns-bool")
		return
	}
	vReach("compared")
	vAssert(rb.Val == want, "compare-matches-spec")
}

var vC07arith = []string{"+", "-", "*"}

// vh_C07_arith: + - * on every pair of {int, char, float} kinds (and
// uint64 with uint64) against Go's wrap-around / float64 semantics,
// evaluated through the generator and the VM.
func vh_C07_arith() {
	env := NewZlispSandbox()
	ka := vChoice("kindA", 4)
	kb := vChoice("kindB", 4)
	if (ka == 1) != (kb == 1) && ka != 3 && kb != 3 {
		vDone() // mixing uint64 with int or char is not specified by the statement; with a float it is float64 arithmetic
	}
	a := vNum(ka, "a")
	b := vNum(kb, "b")
	opi := vChoice("op", len(vC07arith))
	op := vC07arith[opi]
	res, err, panicked := vEval(env, vForm(env, op, a, b))
	vAssert(!panicked, "arith-no-panic")
	if panicked {
		return
	}
	vAssert(err == nil, "arith-no-error")
	if err != nil {
		return
	}
	isFloat := ka == 3 || kb == 3
	switch {
	case isFloat:
		fa, _ := vAsFloat(a)
		fb, _ := vAsFloat(b)
		var want float64
		switch opi {
		case 0:
			want = fa + fb
		case 1:
			want = fa - fb
		default:
			want = fa * fb
		}
		r, isF := res.(*SexpFloat)
		vAssert(isF, "mixed-arith-is-float")
		if isF {
			vAssert(r.Val == want || (r.Val != r.Val && want != want), "float-arith-value")
		}
	case ka == 1:
		x, y := a.(*SexpUint64).Val, b.(*SexpUint64).Val
		var want uint64
		switch opi {
		case 0:
			want = x + y
		case 1:
			want = x - y
		default:
			want = x * y
		}
		r, isU := res.(*SexpUint64)
		vAssert(isU, "uint-arith-is-uint")
		if isU {
			vAssert(r.Val == want, "uint-arith-wraps")
		}
	default:
		var x, y int64
		if ka == 0 {
			x = a.(*SexpInt).Val
		} else {
			x = int64(a.(*SexpChar).Val)
		}
		if kb == 0 {
			y = b.(*SexpInt).Val
		} else {
			y = int64(b.(*SexpChar).Val)
		}
		var want int64
		switch opi {
		case 0:
			want = x + y
		case 1:
			want = x - y
		default:
			want = x * y
		}
		switch r := res.(type) {
		case *SexpInt:
			vAssert(r.Val == want, "int-arith-wraps")
		case *SexpChar:
			// char op char stays a char: the wrapped 64-bit result, truncated
			vAssert(ka == 2 && kb == 2 || ka == 2, "char-result-only-for-char-lhs")
			vAssert(int64(r.Val) == int64(rune(want)), "char-arith-value")
		default:
			vAssert(false, "int-arith-is-int")
		}
	}
	vReach("arith")
}

// vh_C07_div: integer division is exact when it divides and floating
// otherwise; division by zero is an error, not a crash.
func vh_C07_div() {
	env := NewZlispSandbox()
	ka := vChoice("kindA", 2) // 0 int, 1 uint64
	var a, b Sexp
	if ka == 0 {
		a, b = vNum(0, "a"), vNum(0, "b")
	} else {
		a, b = vNum(1, "a"), vNum(1, "b")
	}
	res, err, panicked := vEval(env, vForm(env, "/", a, b))
	vAssert(!panicked, "div-no-panic")
	if panicked {
		return
	}
	if ka == 0 {
		x, y := a.(*SexpInt).Val, b.(*SexpInt).Val
		if y == 0 {
			vReach("div-by-zero")
			vAssert(err != nil, "div-by-zero-is-error")
			return
		}
		vAssert(err == nil, "div-no-error")
		if err != nil {
			return
		}
		if x%y == 0 {
			r, isI := res.(*SexpInt)
			vAssert(isI, "exact-div-is-int")
			if isI {
				vAssert(r.Val == x/y, "exact-div-value")
			}
		} else {
			r, isF := res.(*SexpFloat)
			vAssert(isF, "inexact-div-is-float")
			if isF {
				vAssert(r.Val == float64(x)/float64(y), "inexact-div-value")
			}
		}
	} else {
		x, y := a.(*SexpUint64).Val, b.(*SexpUint64).Val
		if y == 0 {
			vAssert(err != nil, "div-by-zero-is-error")
			return
		}
		vAssert(err == nil, "div-no-error")
		if err != nil {
			return
		}
		if x%y == 0 {
			r, isU := res.(*SexpUint64)
			vAssert(isU, "exact-div-is-uint")
			if isU {
				vAssert(r.Val == x/y, "exact-div-value")
			}
		} else {
			r, isF := res.(*SexpFloat)
			vAssert(isF, "inexact-div-is-float")
			if isF {
				vAssert(r.Val == float64(x)/float64(y), "inexact-div-value")
			}
		}
	}
	vReach("div")
}

// vh_C07_divfloat: mixed integer/float division is carried out in float64.
func vh_C07_divfloat() {
	env := NewZlispSandbox()
	ka := vChoice("kindA", 4)
	kb := vChoice("kindB", 4)
	kinds := []int{0, 2, 3, 1}
	if kinds[ka] != 3 && kinds[kb] != 3 {
		vDone()
	}
	a := vNum(kinds[ka], "a")
	b := vNum(kinds[kb], "b")
	res, err, panicked := vEval(env, vForm(env, "/", a, b))
	vAssert(!panicked, "fdiv-no-panic")
	if panicked {
		return
	}
	vAssert(err == nil, "fdiv-no-error")
	if err != nil {
		return
	}
	fa, _ := vAsFloat(a)
	fb, _ := vAsFloat(b)
	want := fa / fb
	r, isF := res.(*SexpFloat)
	vAssert(isF, "fdiv-is-float")
	if isF {
		vAssert(r.Val == want || (r.Val != r.Val && want != want), "fdiv-value")
	}
	vReach("fdiv")
}

// vh_C07_mod: modulo by zero is an error rather than a crash; otherwise
// Go's remainder.
func vh_C07_mod() {
	env := NewZlispSandbox()
	// operand kinds: int, uint64, char on either side.  With a uint64 on
	// either side the operation is the unsigned one on both operands
	// converted to uint64 (as + - * are, "as in Go"); otherwise the signed one.
	ka, kb := vChoice("ka", 3), vChoice("kb", 3)
	a, b := vNum(ka, "a"), vNum(kb, "b")
	res, err, panicked := vEval(env, vForm(env, "mod", a, b))
	vAssert(!panicked, "mod-no-panic")
	if panicked {
		return
	}
	asI := func(x Sexp) int64 {
		switch t := x.(type) {
		case *SexpInt:
			return t.Val
		case *SexpChar:
			return int64(t.Val)
		case *SexpUint64:
			return int64(t.Val)
		}
		return 0
	}
	x, y := asI(a), asI(b)
	if y == 0 {
		vReach("mod-by-zero")
		vAssert(err != nil, "mod-by-zero-is-error")
		return
	}
	vAssert(err == nil, "mod-no-error")
	if err != nil {
		return
	}
	if ka == 1 || kb == 1 {
		r, isU := res.(*SexpUint64)
		vAssert(isU, "mod-with-a-uint64-is-uint64")
		if isU {
			vAssert(r.Val == uint64(x)%uint64(y), "mod-value")
		}
	} else {
		r, isI := res.(*SexpInt)
		vAssert(isI, "mod-is-int")
		if isI {
			vAssert(r.Val == x%y, "mod-value")
		}
	}
	vReach("mod")
}

// vh_C07_self: both operands are the same object (a value bound to a
// variable and compared with itself, an array holding it compared with
// itself): the comparison is the one of two equal values - in particular NaN
// stays unequal to and unordered against itself.
func vh_C07_self() {
	env := NewZlispSandbox()
	k := vChoice("kind", 4)
	a := vNum(k, "a")
	op := []string{"<", ">", "<=", ">=", "==", "!="}[vChoice("op", 6)]
	want, ok := vRefCompare(op, a, a)
	if !ok {
		vDone()
	}
	env.AddGlobal("xv", a)
	var form Sexp
	inArray := vChoice("where", 2) == 1
	if inArray {
		env.AddGlobal("xa", &SexpArray{Val: []Sexp{&SexpInt{Val: 1}, a}, Env: env})
		if op != "==" && op != "!=" {
			vDone() // arrays are only compared for equality
		}
		form = vForm(env, op, env.MakeSymbol("xa"), env.MakeSymbol("xa"))
	} else {
		form = vForm(env, op, env.MakeSymbol("xv"), env.MakeSymbol("xv"))
	}
	res, err, panicked := vEval(env, form)
	vAssert(!panicked && err == nil, "self-compare-evaluates")
	if panicked || err != nil {
		return
	}
	rb, isB := res.(*SexpBool)
	vAssert(isB && rb.Val == want, "self-compare-matches-spec")
	vReach("self")
}
