//go:build verif

package zygo

// C10 - records convert to Go structs and back without loss.
//
// The converter is a reflection walk (SexpToGoStructs, FillHashFromShadow,
// CallGoMethodFunction).  Under the engine package reflect is the addressable
// model of engine/interp/reflect2.go (variables, Set, Field, Elem, Call, the
// panics of the real package with their texts); everything else - the walk
// itself, the registry, the json-tag table, the dedup cache, the method call
// glue - is the real code.  Field contents are symbolic: the solver decides
// "the Go field holds exactly the record's value" for every value at once.
//
// The struct types below are registered the way an embedding program
// registers its own (GoStructRegistry.RegisterUserdef in an init function);
// together with the repository's demo structs they cover every field kind the
// property names: embedded struct, nested struct pointer, nested struct value,
// slices of scalars, byte slice, map, time, interface-typed field holding a
// registered struct, slice of interfaces, slice of struct pointers.

import (
	"time"
)

type VShape interface{ Area() int64 }

type VLeaf struct {
	Name string `json:"name"`
	Num  int64  `json:"num"`
}

func (l *VLeaf) Area() int64 { return l.Num }

type VBox struct {
	W      int64  `json:"w"`
	Inside VShape `json:"inside"`
}

func (b *VBox) Area() int64 { return b.W }

type VBase struct {
	BaseI int64  `json:"basei"`
	BaseS string `json:"bases"`
}

type VRec struct {
	VBase
	I     int64             `json:"i"`
	N     int               `json:"n"`
	I32   int32             `json:"i32"`
	F     float64           `json:"f"`
	S     string            `json:"s"`
	B     bool              `json:"b"`
	Raw   []byte            `json:"raw"`
	Ints  []int64           `json:"ints"`
	Strs  []string          `json:"strs"`
	M     map[string]string `json:"m"`
	T     time.Time         `json:"t"`
	P     *VLeaf            `json:"p"`
	V     VLeaf             `json:"v"`
	Any   VShape            `json:"any"`
	Kids  []VShape          `json:"kids"`
	Ps    []*VLeaf          `json:"ps"`
	NoTag int64
}

func (r *VRec) Echo(x *VRec) *VRec       { return x }
func (r *VRec) EchoLeaf(x *VLeaf) *VLeaf { return x }
func (r *VRec) EchoBox(x *VBox) *VBox    { return x }
func (r *VRec) Self() *VRec              { return r }
func (r *VRec) GetI() int64              { return r.I }
func (r *VRec) GetS() string             { return r.S }
func (r *VRec) KidsArea() int64 {
	var t int64
	for _, k := range r.Kids {
		t += k.Area()
	}
	return t
}

// Four levels of anonymous embedding, several fields per level.
type VD4 struct {
	Low  int64 `json:"low"`
	High int64 `json:"high"`
	Step int64 `json:"step"`
}
type VD3 struct {
	VD4
	C1 int64 `json:"c1"`
	C2 int64 `json:"c2"`
}
type VD2 struct {
	VD3
	B1 int64 `json:"b1"`
	B2 int64 `json:"b2"`
}
type VDeep struct {
	VD2
	A1 int64 `json:"a1"`
	A2 int64 `json:"a2"`
}

func (r *VDeep) Self() *VDeep         { return r }
func (r *VDeep) Echo(x *VDeep) *VDeep { return x }

// An outer struct that declares Go field names its embedded struct also has
// (different json tags), and an embedded pointer-free struct below it.
type VShBase struct {
	ID   int64  `json:"base_id"`
	Name string `json:"base_name"`
	Only int64  `json:"only"`
}
type VShadow struct {
	VShBase
	ID   int64  `json:"id"`
	Name string `json:"name"`
}

func (r *VShadow) Self() *VShadow           { return r }
func (r *VShadow) Echo(x *VShadow) *VShadow { return x }

// methods with the parameter and result kinds the call glue marshals
func (r *VRec) Pair(a int64, s string) (int64, string) { return a + r.I, s + r.S }
func (r *VRec) Fail(code int64) error {
	if code == 0 {
		return nil
	}
	return vC10Err{code}
}
func (r *VRec) RawOf(s string) []byte  { return []byte(s + r.S) }
func (r *VRec) Half(f float64) float64 { return f / 2 }
func (r *VRec) Sum(xs []int64) int64 {
	var t int64
	for _, x := range xs {
		t += x
	}
	return t + r.I
}
func (r *VRec) NumOf(l *VLeaf) int64           { return l.Num }
func (r *VRec) Swap(a *VLeaf, b *VLeaf) *VLeaf { a.Num, b.Num = b.Num, a.Num; return b }
func (r *VRec) AreaOf(s VShape) int64          { return s.Area() }
func (r *VRec) Nothing()                       {}
func (r *VRec) WithI(n int64) *VRec            { r.I = n; return r }
func (r *VRec) Bump() int64                    { r.I++; return r.I }

type vC10Err struct{ code int64 }

func (e vC10Err) Error() string { return "verif: failed on purpose" }

// narrow and unsigned numeric fields
type VNums struct {
	F32 float32 `json:"f32"`
	I8  int8    `json:"i8"`
	I16 int16   `json:"i16"`
	U8  uint8   `json:"u8"`
	U64 uint64  `json:"u64"`
	F64 float64 `json:"f64"`
}

// an outer struct that re-declares a field of the struct it embeds under the
// same json tag: as in Go, the outer field is the one the name means
type VSameBase struct {
	ID    int64 `json:"id"`
	Other int64 `json:"other"`
}
type VSame struct {
	VSameBase
	ID int64 `json:"id"`
}

func (r *VSame) GetID() int64         { return r.ID }
func (r *VSame) Echo(x *VSame) *VSame { return x }

// the map types the converter has cases for
type VMaps struct {
	SS map[string]string  `json:"ss"`
	SF map[string]float64 `json:"sf"`
	IF map[int64]float64  `json:"if"`
	SI map[string]VShape  `json:"si"`
}

func (r *VMaps) Self() *VMaps { return r }

// VFlat has only the field kinds that FillHashFromShadow renders.
type VFlat struct {
	A int64   `json:"a"`
	B string  `json:"b"`
	C float64 `json:"c"`
	D []byte  `json:"d"`
	E int     `json:"e"`
	G int32   `json:"g"`
	L *VLeaf  `json:"l"`
}

func (r *VFlat) Echo(x *VFlat) *VFlat { return x }
func (r *VFlat) Self() *VFlat         { return r }

func init() {
	gsr := &GoStructRegistry
	gsr.RegisterUserdef(&RegisteredType{GenDefMap: true, Factory: func(env *Zlisp, h *SexpHash) (interface{}, error) {
		return &VRec{}, nil
	}}, true, "vrec")
	gsr.RegisterUserdef(&RegisteredType{GenDefMap: true, Factory: func(env *Zlisp, h *SexpHash) (interface{}, error) {
		return &VLeaf{}, nil
	}}, true, "vleaf")
	gsr.RegisterUserdef(&RegisteredType{GenDefMap: true, Factory: func(env *Zlisp, h *SexpHash) (interface{}, error) {
		return &VBox{}, nil
	}}, true, "vbox")
	gsr.RegisterUserdef(&RegisteredType{GenDefMap: true, Factory: func(env *Zlisp, h *SexpHash) (interface{}, error) {
		return &VFlat{}, nil
	}}, true, "vflat")
	gsr.RegisterUserdef(&RegisteredType{GenDefMap: true, Factory: func(env *Zlisp, h *SexpHash) (interface{}, error) {
		return &VMaps{}, nil
	}}, true, "vmaps")
	gsr.RegisterUserdef(&RegisteredType{GenDefMap: true, Factory: func(env *Zlisp, h *SexpHash) (interface{}, error) {
		return &VNums{}, nil
	}}, true, "vnums")
	gsr.RegisterUserdef(&RegisteredType{GenDefMap: true, Factory: func(env *Zlisp, h *SexpHash) (interface{}, error) {
		return &VSame{}, nil
	}}, true, "vsame")
	gsr.RegisterUserdef(&RegisteredType{GenDefMap: true, Factory: func(env *Zlisp, h *SexpHash) (interface{}, error) {
		return &VDeep{}, nil
	}}, true, "vdeep")
	gsr.RegisterUserdef(&RegisteredType{GenDefMap: true, Factory: func(env *Zlisp, h *SexpHash) (interface{}, error) {
		return &VShadow{}, nil
	}}, true, "vshadow")
}

var vC10EnvPool [2]*Zlisp

// vC10Env: a sandboxed interpreter with the standard setup plus the script
// entry points of the conversion (togo, fromgo, _method, methodls), which
// cmd/zygo has outside the sandbox.
func vC10Env(k int) *Zlisp {
	vSetupOnce("c10env", func() {
		for i := range vC10EnvPool {
			e := NewZlispSandbox()
			e.StandardSetup()
			e.AddFunction("togo", ToGoFunction)
			e.AddFunction("fromgo", FromGoFunction)
			e.AddFunction("_method", CallGoMethodFunction)
			e.AddFunction("methodls", GoMethodListFunction)
			vC10EnvPool[i] = e
		}
	})
	return vC10EnvPool[k]
}

// vC10Run evaluates the forms one by one; ok is false as soon as one fails.
func vC10Run(env *Zlisp, forms []Sexp) (last Sexp, ok bool) {
	for _, f := range forms {
		r, err, p := vEval(env, f)
		if p || err != nil {
			return nil, false
		}
		last = r
	}
	return last, true
}

func vC10Hash(env *Zlisp, name string) *SexpHash {
	x, found := env.FindObject(name)
	if !found {
		return nil
	}
	h, _ := x.(*SexpHash)
	return h
}

func vC10Str(name string, n int) *SexpStr { return &SexpStr{S: vString(name, n)} }

// vC10Small: an int that every integer field kind of the harness structs holds.
func vC10Small(name string) *SexpInt {
	v := vInt64(name)
	vAssume(uint64(v+(1<<31)) < (1 << 32))
	return &SexpInt{Val: v}
}

// vh_C10_fill: one record with every scalar field kind, an embedded struct,
// a byte slice, slices of scalars and a nested struct pointer, all contents
// symbolic; after (togo r) the attached Go struct holds exactly those values.
// route 1 converts implicitly instead: the record is the receiver of a Go
// method call and the method's result is computed from its fields.
func vh_C10_fill() {
	vFormatOpaque(true)
	env := vC10Env(0)
	i, n, i32 := &SexpInt{Val: vInt64("i")}, &SexpInt{Val: vInt64("n")}, vC10Small("i32")
	f := &SexpFloat{Val: vFloat64("f")}
	vAssume(f.Val == f.Val)
	s, bs := vC10Str("s", 3), vC10Str("bs", 2)
	basei, notag := &SexpInt{Val: vInt64("basei")}, &SexpInt{Val: vInt64("notag")}
	b := &SexpBool{Val: vBool("b")}
	raw := &SexpRaw{Val: vBytes("raw", 3)}
	e0, e1 := &SexpInt{Val: vInt64("e0")}, &SexpInt{Val: vInt64("e1")}
	st := vC10Str("st", 2)
	lname, lnum := vC10Str("lname", 2), &SexpInt{Val: vInt64("lnum")}
	forms := vT(env, `(def l (vleaf name:9012 num:9013))
(def r (vrec i:9001 n:9002 i32:9003 f:9004 s:9005 b:9006 basei:9007 bases:9008 raw:9009 ints:[9010 9011] strs:[9014] p:l NoTag:9015))`,
		i, n, i32, f, s, b, basei, bs, raw, e0, e1, lname, lnum, st, notag)
	if _, ok := vC10Run(env, forms); !ok {
		vAssert(false, "record-builds")
		return
	}
	route := vChoice("route", 2)
	switch route {
	case 0:
		_, err, p := vEvalString(env, `(togo r)`)
		vAssert(!p && err == nil, "togo-of-a-well-typed-record-succeeds")
		if p || err != nil {
			return
		}
	case 1:
		res, err, p := vEvalString(env, `(_method r GetI:)`)
		vAssert(!p && err == nil, "method-call-on-a-well-typed-record-succeeds")
		if p || err != nil {
			return
		}
		arr, isArr := res.(*SexpArray)
		vAssert(isArr && len(arr.Val) == 1, "method-result-is-a-one-element-array")
		if isArr && len(arr.Val) == 1 {
			got, isInt := arr.Val[0].(*SexpInt)
			vAssert(isInt && got.Val == i.Val, "method-sees-the-record's-field-value")
		}
	}
	h := vC10Hash(env, "r")
	g, isRec := h.GoShadowStruct.(*VRec)
	vAssert(h.ShadowSet && isRec && g != nil, "record-has-its-go-struct-attached")
	if !isRec || g == nil {
		return
	}
	vAssert(g.I == i.Val, "int64-field-filled-exactly")
	vAssert(int64(g.N) == n.Val, "int-field-filled-exactly")
	vAssert(int64(g.I32) == i32.Val, "int32-field-filled-exactly")
	vAssert(g.F == f.Val, "float64-field-filled-exactly")
	vAssert(g.S == s.S, "string-field-filled-exactly")
	vAssert(g.B == b.Val, "bool-field-filled-exactly")
	vAssert(g.BaseI == basei.Val && g.BaseS == bs.S, "embedded-struct-fields-filled-exactly")
	vAssert(g.NoTag == notag.Val, "untagged-field-filled-exactly")
	vAssert(string(g.Raw) == string(raw.Val), "byte-slice-field-filled-exactly")
	vAssert(len(g.Ints) == 2 && g.Ints[0] == e0.Val && g.Ints[1] == e1.Val, "int-slice-field-filled-exactly")
	vAssert(len(g.Strs) == 1 && g.Strs[0] == st.S, "string-slice-field-filled-exactly")
	vAssert(g.P != nil && g.P.Name == lname.S && g.P.Num == lnum.Val, "nested-struct-pointer-filled-exactly")
	vAssert(g.Any == nil && g.Kids == nil && g.Ps == nil && g.M == nil && g.T.IsZero() && g.V == (VLeaf{}), "absent-fields-stay-zero")
	vReachIdx("fill-route", route, 2)
}

// vh_C10_range: an integer of any size into the narrower integer fields, and
// numbers across the int/float divide.  A value the field cannot hold exactly
// must be refused (an error), never stored as a different number.
func vh_C10_range() {
	vFormatOpaque(true)
	env := vC10Env(0)
	k := vChoice("case", 12)
	switch k {
	case 6, 7, 8, 9, 10: // any integer into float32, int8, int16, uint8, uint64 fields: refused, or the field holds exactly that number
		v := &SexpInt{Val: vInt64("v")}
		key := []string{"f32", "i8", "i16", "u8", "u64"}[k-6]
		if _, ok := vC10Run(env, vT(env, `(def r (vnums `+key+`:9001)) (togo r)`, v)); ok {
			g := vC10Hash(env, "r").GoShadowStruct.(*VNums)
			switch k {
			case 6:
				vAssert(float64(g.F32) < 9223372036854775808.0 && int64(float64(g.F32)) == v.Val, "narrow-field-holds-the-record's-integer-or-the-conversion-fails")
			case 7:
				vAssert(int64(g.I8) == v.Val, "narrow-field-holds-the-record's-integer-or-the-conversion-fails")
			case 8:
				vAssert(int64(g.I16) == v.Val, "narrow-field-holds-the-record's-integer-or-the-conversion-fails")
			case 9:
				vAssert(int64(g.U8) == v.Val, "narrow-field-holds-the-record's-integer-or-the-conversion-fails")
			case 10:
				vAssert(v.Val >= 0 && g.U64 == uint64(v.Val), "narrow-field-holds-the-record's-integer-or-the-conversion-fails")
			}
		}
	case 11: // a float into a float32 field narrows as Go's conversion does (rounding to nearest is not a loss the statement excludes); into float64 it is exact
		// (concrete values: the engine does not encode float64 -> float32)
		v := &SexpFloat{Val: []float64{0.1, 1.5, 16777217.0, 1e40, -2.5e-50, 3.4028234663852886e38}[vChoice("f", 6)]}
		if _, ok := vC10Run(env, vT(env, `(def r (vnums f32:9001 f64:9001)) (togo r)`, v)); ok {
			g := vC10Hash(env, "r").GoShadowStruct.(*VNums)
			vAssert(g.F64 == v.Val && g.F32 == float32(v.Val), "float-fields-hold-the-float")
		} else {
			vAssert(false, "float-into-float-fields-converts")
		}
	case 5: // any integer into a float64 field: refused or held exactly
		v := &SexpInt{Val: vInt64("v")}
		if _, ok := vC10Run(env, vT(env, `(def r (vrec f:9001)) (togo r)`, v)); ok {
			g := vC10Hash(env, "r").GoShadowStruct.(*VRec)
			vAssert(g.F < 9223372036854775808.0 && int64(g.F) == v.Val, "float-field-holds-the-integer's-value-or-the-conversion-fails")
		}
	case 0: // any int64 into an int32 field
		v := &SexpInt{Val: vInt64("v")}
		if _, ok := vC10Run(env, vT(env, `(def r (vrec i32:9001)) (togo r)`, v)); ok {
			g := vC10Hash(env, "r").GoShadowStruct.(*VRec)
			vAssert(int64(g.I32) == v.Val, "int32-field-holds-the-record's-integer-or-the-conversion-fails")
		}
	case 1: // any int64 into the int32 field of a demo struct reached through two embeddings
		v := &SexpInt{Val: vInt64("v")}
		if _, ok := vC10Run(env, vT(env, `(def r (vflat g:9001)) (togo r)`, v)); ok {
			g := vC10Hash(env, "r").GoShadowStruct.(*VFlat)
			vAssert(int64(g.G) == v.Val, "int32-field-holds-the-record's-integer-or-the-conversion-fails")
		}
	case 2: // an integer into a float64 field: exact when representable
		v := &SexpInt{Val: vInt64("v")}
		vAssume(uint64(v.Val+(1<<53)) <= (1 << 54))
		if _, ok := vC10Run(env, vT(env, `(def r (vrec f:9001)) (togo r)`, v)); ok {
			g := vC10Hash(env, "r").GoShadowStruct.(*VRec)
			vAssert(g.F == float64(v.Val) && int64(g.F) == v.Val, "float-field-holds-the-integer")
		} else {
			vAssert(false, "integer-into-float-field-converts")
		}
	case 3: // a whole float into an int64 field
		w := vInt64("w")
		vAssume(uint64(w+(1<<52)) <= (1 << 53))
		v := &SexpFloat{Val: float64(w)}
		if _, ok := vC10Run(env, vT(env, `(def r (vrec i:9001)) (togo r)`, v)); ok {
			g := vC10Hash(env, "r").GoShadowStruct.(*VRec)
			vAssert(g.I == w, "int-field-holds-the-whole-float")
		} else {
			vAssert(false, "whole-float-into-int-field-converts")
		}
	case 4: // a float with a fraction into an int64 field: refused or kept, not rounded silently
		v := &SexpFloat{Val: vFloat64("v")}
		vAssume(v.Val > -1e15 && v.Val < 1e15)
		if _, ok := vC10Run(env, vT(env, `(def r (vrec i:9001)) (togo r)`, v)); ok {
			g := vC10Hash(env, "r").GoShadowStruct.(*VRec)
			vAssert(float64(g.I) == v.Val, "int-field-holds-the-float's-value-or-the-conversion-fails")
		}
	}
	vReachIdx("range-case", k, 12)
}

// the value kinds a script can put into a record field
var vC10Values = []struct{ name, text string }{
	{"int", `7`},
	{"float", `2.5`},
	{"string", `"txt"`},
	{"bool", `true`},
	{"raw", `(raw "ab")`},
	{"char", `'c'`},
	{"symbol", `(quote sym)`},
	{"ints", `[1 2]`},
	{"strings", `["a" "b"]`},
	{"empty-array", `[]`},
	{"mixed-array", `[1 "a"]`},
	{"hash", `(hash a:"x")`},
	{"leaf", `(vleaf name:"q" num:4)`},
	{"box", `(vbox w:2)`},
	{"leaves", `[(vleaf num:1) (vleaf num:2)]`},
	{"uint64", `5ULL`},
	{"list", `(list 1 2)`},
	{"function", `(fn [x] x)`},
}

var vC10Fields = []string{"i", "n", "i32", "f", "s", "b", "raw", "ints", "strs", "m", "t", "p", "v", "any", "kids", "ps", "basei", "bases", "NoTag", "nosuch", "I", "VBase"}

// vC10Holds reports whether g's field holds the value written by vC10Values[k]
// (the pairs for which a conversion is defined).
func vC10Holds(g *VRec, field string, k string) (defined, holds bool) {
	switch field + "<-" + k {
	case "i<-int":
		return true, g.I == 7
	case "n<-int":
		return true, g.N == 7
	case "i32<-int":
		return true, g.I32 == 7
	case "basei<-int":
		return true, g.BaseI == 7
	case "NoTag<-int":
		return true, g.NoTag == 7
	case "f<-int":
		return true, g.F == 7
	case "f<-float":
		return true, g.F == 2.5
	case "s<-string":
		return true, g.S == "txt"
	case "bases<-string":
		return true, g.BaseS == "txt"
	case "s<-symbol":
		return true, g.S == "sym"
	case "bases<-symbol":
		return true, g.BaseS == "sym"
	case "s<-leaf", "bases<-leaf":
		// documented: a string field takes the text of a record instead of its translation
		t := g.S + g.BaseS
		return true, t == ` (vleaf name:"q" num:4)`
	case "s<-box", "bases<-box":
		t := g.S + g.BaseS
		return true, t == ` (vbox w:2)`
	case "strs<-leaves":
		return true, len(g.Strs) == 2 && g.Strs[0] == ` (vleaf num:1)` && g.Strs[1] == ` (vleaf num:2)`
	case "b<-bool":
		return true, g.B
	case "raw<-raw":
		return true, string(g.Raw) == "ab"
	case "i32<-char":
		return true, g.I32 == 'c'
	case "ints<-ints":
		return true, len(g.Ints) == 2 && g.Ints[0] == 1 && g.Ints[1] == 2
	case "strs<-strings":
		return true, len(g.Strs) == 2 && g.Strs[0] == "a" && g.Strs[1] == "b"
	case "ints<-empty-array":
		return true, len(g.Ints) == 0
	case "strs<-empty-array":
		return true, len(g.Strs) == 0
	case "kids<-empty-array":
		return true, len(g.Kids) == 0
	case "ps<-empty-array":
		return true, len(g.Ps) == 0
	case "raw<-empty-array":
		return true, len(g.Raw) == 0
	case "m<-hash":
		return true, len(g.M) == 1 && g.M["a"] == "x"
	case "p<-leaf":
		return true, g.P != nil && g.P.Name == "q" && g.P.Num == 4
	case "v<-leaf":
		return true, g.V.Name == "q" && g.V.Num == 4
	case "any<-leaf":
		l, ok := g.Any.(*VLeaf)
		return true, ok && l != nil && l.Name == "q" && l.Num == 4
	case "any<-box":
		b, ok := g.Any.(*VBox)
		return true, ok && b != nil && b.W == 2 && b.Inside == nil
	case "kids<-leaves":
		if len(g.Kids) != 2 {
			return true, false
		}
		a, ok1 := g.Kids[0].(*VLeaf)
		b, ok2 := g.Kids[1].(*VLeaf)
		return true, ok1 && ok2 && a.Num == 1 && b.Num == 2
	case "ps<-leaves":
		return true, len(g.Ps) == 2 && g.Ps[0] != nil && g.Ps[1] != nil && g.Ps[0].Num == 1 && g.Ps[1].Num == 2
	}
	return false, false
}

// vh_C10_kinds: every field of VRec (and two names it does not have) against
// every kind of value.  Either the conversion reports an error, or it is one
// of the defined pairs and the field holds the value: a record entry is never
// accepted and then dropped or stored as something else.
func vh_C10_kinds() {
	vFormatOpaque(true)
	env := vC10Env(0)
	fi := vChoice("field", len(vC10Fields))
	vi := vChoice("value", len(vC10Values))
	field, val := vC10Fields[fi], vC10Values[vi]
	if _, ok := vC10Run(env, vT(env, `(def x `+val.text+`) (def r (vrec `+field+`:x))`)); !ok {
		vAssert(false, "record-with-any-field-value-builds")
		return
	}
	_, err, p := vEvalString(env, `(togo r)`)
	vAssert(!p, "togo-never-lets-a-panic-escape")
	if p {
		return
	}
	defined, _ := vC10Holds(&VRec{}, field, val.name)
	if err != nil {
		vAssert(!defined, "defined-conversion-succeeds:"+field+"<-"+val.name)
		vReach("kinds-refused")
		return
	}
	g, isRec := vC10Hash(env, "r").GoShadowStruct.(*VRec)
	vAssert(isRec && g != nil, "record-has-its-go-struct-attached")
	if !isRec || g == nil {
		return
	}
	_, holds := vC10Holds(g, field, val.name)
	vAssert(defined, "entry-accepted-only-when-a-conversion-is-defined:"+field+"<-"+val.name)
	if defined {
		vAssert(holds, "accepted-entry-is-stored-exactly:"+field+"<-"+val.name)
	}
	vReach("kinds-accepted")
}

// the places of VRec (and of a box nested in it) that can refer to a leaf record
var vC10Places = []struct{ name, text string }{
	{"p", `p:l`},
	{"any", `any:l`},
	{"kids", `kids:[l]`},
	{"ps", `ps:[l]`},
	{"kids-twice", `kids:[l l]`},
	{"ps-twice", `ps:[l l]`},
	{"box-inside", `any:(vbox w:1 inside:l)`},
	{"kids-box-inside", `kids:[(vbox w:1 inside:l)]`},
}

func vC10LeafAt(g *VRec, place string, k int) *VLeaf {
	asLeaf := func(s VShape) *VLeaf {
		l, _ := s.(*VLeaf)
		return l
	}
	switch place {
	case "p":
		return g.P
	case "any":
		return asLeaf(g.Any)
	case "kids", "kids-twice":
		if len(g.Kids) > k {
			return asLeaf(g.Kids[k])
		}
	case "ps", "ps-twice":
		if len(g.Ps) > k {
			return g.Ps[k]
		}
	case "box-inside":
		if b, ok := g.Any.(*VBox); ok && b != nil {
			return asLeaf(b.Inside)
		}
	case "kids-box-inside":
		if len(g.Kids) > 0 {
			if b, ok := g.Kids[0].(*VBox); ok && b != nil {
				return asLeaf(b.Inside)
			}
		}
	}
	return nil
}

// vh_C10_sharing: one leaf record referenced from two places of a record (or
// twice from one slice).  The conversion succeeds, both places hold the leaf's
// values, and they are one shared Go object - under every order in which the
// record's entries can be visited (Go map order: the engine permutes it).
func vh_C10_sharing() {
	vFormatOpaque(true)
	env := vC10Env(0)
	a := vChoice("first", len(vC10Places))
	b := vChoice("second", len(vC10Places))
	pa, pb := vC10Places[a], vC10Places[b]
	twice := pa.name == "kids-twice" || pa.name == "ps-twice"
	// two entries of one record need two different keys
	key := func(s string) string {
		for i := range s {
			if s[i] == ':' {
				return s[:i]
			}
		}
		return s
	}
	if twice {
		vAssume(b == 0)
	} else {
		vAssume(pb.name != "kids-twice" && pb.name != "ps-twice")
		vAssume(key(pa.text) != key(pb.text))
	}
	num := &SexpInt{Val: vInt64("num")}
	text := `(def l (vleaf name:"shared" num:9001)) (def r (vrec ` + pa.text
	if !twice {
		text += ` ` + pb.text
	}
	// thorough tier: a third reference, from a place of another key
	third := ""
	if vTier() == 1 && !twice {
		c := vChoice("third", 5)
		if c > 0 {
			pc := vC10Places[c-1]
			vAssume(key(pc.text) != key(pa.text) && key(pc.text) != key(pb.text))
			text += ` ` + pc.text
			third = pc.name
		}
	}
	text += `))`
	if _, ok := vC10Run(env, vT(env, text, num)); !ok {
		vAssert(false, "record-builds")
		return
	}
	vMapOrder(true, 3)
	_, err, p := vEvalString(env, `(togo r)`)
	vMapOrder(false, 0)
	vAssert(!p && err == nil, "record-referencing-one-record-twice-converts:"+pa.name+"+"+pb.name)
	if p || err != nil {
		return
	}
	g, isRec := vC10Hash(env, "r").GoShadowStruct.(*VRec)
	if !isRec || g == nil {
		vAssert(false, "record-has-its-go-struct-attached")
		return
	}
	var x, y *VLeaf
	if twice {
		x, y = vC10LeafAt(g, pa.name, 0), vC10LeafAt(g, pa.name, 1)
	} else {
		x, y = vC10LeafAt(g, pa.name, 0), vC10LeafAt(g, pb.name, 0)
	}
	vAssert(x != nil && y != nil && x.Num == num.Val && y.Num == num.Val && x.Name == "shared" && y.Name == "shared", "both-places-hold-the-leaf's-values:"+pa.name+"+"+pb.name)
	vAssert(x == y, "a-record-referenced-twice-is-one-go-object:"+pa.name+"+"+pb.name)
	if third != "" {
		z := vC10LeafAt(g, third, 0)
		vAssert(z != nil && z == x, "a-record-referenced-three-times-is-one-go-object")
	}
	vReach("sharing")
}

// vh_C10_errors: what the struct does not have, or cannot hold, is an error
// the script sees - for explicit conversion and for the implicit conversion
// of a method argument - and the interpreter stays usable afterwards.
func vh_C10_errors() {
	vFormatOpaque(true)
	env := vC10Env(0)
	bad := []string{
		`(vrec nosuch:5)`,
		`(vrec i:"str")`,
		`(vrec s:5)`,
		`(vrec b:1)`,
		`(vrec p:5)`,
		`(vrec ints:[1 "a"])`,
		`(vrec kids:[5])`,
		`(vrec p:(vbox w:1))`,
		`(vrec any:(vrec i:1))`,
		`(vrec raw:"abc")`,
		`(vrec m:(hash a:5))`,
		`(vleaf name:5)`,
		`(vleaf nosuch:"x")`,
		`(vrec p:(vleaf nosuch:1))`,
		`(vrec kids:[(vleaf num:"x")])`,
		`(vrec any:(vbox inside:(vleaf num:"x")))`,
	}
	k := vChoice("bad", len(bad))
	route := vChoice("route", 3)
	if _, ok := vC10Run(env, vT(env, `(def good (vrec i:1)) (def x `+bad[k]+`)`)); !ok {
		vAssert(false, "ill-typed-record-builds")
		return
	}
	var err error
	var p bool
	switch route {
	case 0:
		_, err, p = vEvalString(env, `(togo x)`)
	case 1:
		if k == 11 || k == 12 {
			_, err, p = vEvalString(env, `(_method x Area:)`)
		} else {
			_, err, p = vEvalString(env, `(_method x GetI:)`)
		}
	case 2:
		if k == 11 || k == 12 {
			_, err, p = vEvalString(env, `(_method good EchoLeaf: x)`)
		} else {
			_, err, p = vEvalString(env, `(_method good Echo: x)`)
		}
	}
	vAssert(!p, "no-panic-escapes")
	vAssert(p || err != nil, "ill-typed-record-is-refused-with-an-error")
	res, err2, p2 := vEvalString(env, `(+ 1 2)`)
	ri, isInt := res.(*SexpInt)
	vAssert(!p2 && err2 == nil && isInt && ri.Val == 3, "interpreter-usable-after-a-refused-conversion")
	vC04AtRest(env, "after-refused-conversion")
	vReachIdx("errors-route", route, 3)
}

// vC10Same: back carries the value orig (what "a record survives the trip
// through Go unchanged" means per kind of value).
func vC10Same(env *Zlisp, orig, back Sexp) bool {
	switch o := orig.(type) {
	case *SexpInt:
		b, ok := back.(*SexpInt)
		return ok && b.Val == o.Val
	case *SexpFloat:
		b, ok := back.(*SexpFloat)
		return ok && b.Val == o.Val
	case *SexpStr:
		b, ok := back.(*SexpStr)
		return ok && b.S == o.S
	case *SexpBool:
		b, ok := back.(*SexpBool)
		return ok && b.Val == o.Val
	case *SexpRaw:
		b, ok := back.(*SexpRaw)
		return ok && string(b.Val) == string(o.Val)
	case *SexpTime:
		b, ok := back.(*SexpTime)
		return ok && b.Tm.Equal(o.Tm)
	case *SexpArray:
		b, ok := back.(*SexpArray)
		if !ok || len(b.Val) != len(o.Val) {
			return false
		}
		for i := range o.Val {
			if !vC10Same(env, o.Val[i], b.Val[i]) {
				return false
			}
		}
		return true
	case *SexpHash:
		b, ok := back.(*SexpHash)
		if !ok || b.TypeName != o.TypeName {
			return false
		}
		for _, k := range o.KeyOrder {
			ov, err := o.HashGet(env, k)
			if err != nil {
				return false
			}
			bv, err := b.HashGet(env, k)
			if err != nil || !vC10Same(env, ov, bv) {
				return false
			}
		}
		return true
	}
	return false
}

// vC10Back runs a one-result method call and returns the record it yields.
func vC10Back(env *Zlisp, call string) (Sexp, bool) {
	res, err, p := vEvalString(env, call)
	if p || err != nil {
		return nil, false
	}
	arr, isArr := res.(*SexpArray)
	if !isArr || len(arr.Val) != 1 {
		return nil, false
	}
	return arr.Val[0], true
}

// vh_C10_roundtrip: a record handed to a Go method (as the receiver or as an
// argument) and handed back comes back as a record of the same type with the
// same field values - for the field kinds the Go-to-record direction renders
// (integers, float, string, byte slice, nested struct pointer), with symbolic
// contents.
func vh_C10_roundtrip() {
	vFormatOpaque(true)
	env := vC10Env(0)
	a, e, g := &SexpInt{Val: vInt64("a")}, &SexpInt{Val: vInt64("e")}, vC10Small("g")
	b := vC10Str("b", 3)
	c := &SexpFloat{Val: vFloat64("c")}
	vAssume(c.Val == c.Val)
	d := &SexpRaw{Val: vBytes("d", 2)}
	lname, lnum := vC10Str("lname", 2), &SexpInt{Val: vInt64("lnum")}
	forms := vT(env, `(def l (vleaf name:9007 num:9008))
(def x (vflat a:9001 b:9002 c:9003 d:9004 e:9005 g:9006 l:l))
(def o (vflat a:1 l:(vleaf num:2)))`, a, b, c, d, e, g, lname, lnum)
	if _, ok := vC10Run(env, forms); !ok {
		vAssert(false, "record-builds")
		return
	}
	route := vChoice("route", 3)
	var back Sexp
	var ok bool
	switch route {
	case 0:
		back, ok = vC10Back(env, `(_method x Self:)`)
	case 1:
		back, ok = vC10Back(env, `(_method o Echo: x)`)
	case 2:
		// the leaf alone, through a method of another struct type
		back, ok = vC10Back(env, `(_method (vrec i:1 p:(vleaf num:3) any:(vleaf num:4)) EchoLeaf: l)`)
	}
	vAssert(ok, "method-returning-a-registered-struct-succeeds")
	if !ok {
		return
	}
	if route == 2 {
		vAssert(vC10Same(env, vC10Hash(env, "l"), back), "struct-handed-back-is-the-same-record")
	} else {
		vAssert(vC10Same(env, vC10Hash(env, "x"), back), "struct-handed-back-is-the-same-record")
	}
	vReachIdx("roundtrip-route", route, 3)
}

// the field kinds of VRec one by one, concrete contents
var vC10BackFields = []struct{ name, text string }{
	{"int64", `i:5`},
	{"int", `n:6`},
	{"int32", `i32:7`},
	{"float", `f:1.5`},
	{"string", `s:"hi"`},
	{"bool", `b:true`},
	{"raw", `raw:(raw "abc")`},
	{"embedded", `basei:9 bases:"bs"`},
	{"untagged", `NoTag:4`},
	{"ints", `ints:[1 2 3]`},
	{"strings", `strs:["x" "y"]`},
	{"map", `m:(hash a:"x")`},
	{"pointer", `p:(vleaf name:"a" num:3)`},
	{"interface", `any:(vleaf name:"b" num:4)`},
	{"interface-box", `any:(vbox w:3 inside:(vleaf num:1))`},
	{"kids", `kids:[(vleaf num:1) (vbox w:2)]`},
	{"pointers", `ps:[(vleaf num:1) (vleaf num:2)]`},
}

// vh_C10_back: each field kind of VRec through Self and Echo, all other
// fields left unset (nil pointers, nil interfaces, nil slices in the Go
// struct): the call succeeds and the field comes back equal.
func vh_C10_back() {
	vFormatOpaque(true)
	env := vC10Env(0)
	k := vChoice("field", len(vC10BackFields))
	route := vChoice("route", 2)
	fld := vC10BackFields[k]
	if _, ok := vC10Run(env, vT(env, `(def x (vrec `+fld.text+`)) (def o (vrec i:1))`)); !ok {
		vAssert(false, "record-builds")
		return
	}
	var back Sexp
	var ok bool
	if route == 0 {
		back, ok = vC10Back(env, `(_method x Self:)`)
	} else {
		back, ok = vC10Back(env, `(_method o Echo: x)`)
	}
	vAssert(ok, "method-returning-a-struct-with-unset-fields-succeeds:"+fld.name)
	if !ok {
		return
	}
	vAssert(vC10Same(env, vC10Hash(env, "x"), back), "field-comes-back-equal:"+fld.name)
	vReach("back")
}

// vh_C10_order: the record a Go method hands back does not depend on the
// order in which Go walks the type registry or the record's entries (every
// order of maps of up to 3 entries, forwards and backwards for larger ones):
// same type names, same values, under all of them.
func vh_C10_order() {
	vFormatOpaque(true)
	env := vC10Env(0)
	num := &SexpInt{Val: vInt64("num")}
	k := vChoice("shape", 3)
	var text, call string
	switch k {
	case 0:
		text, call = `(def x (vleaf name:"n" num:9001)) (def o (vrec i:1))`, `(_method o EchoLeaf: x)`
	case 1:
		text, call = `(def x (vbox w:9001 inside:(vleaf name:"in" num:2))) (def o (vrec i:1))`, `(_method o EchoBox: x)`
	case 2:
		text, call = `(def x (vleaf name:"n" num:9001))`, `(_method x Area:)`
	}
	if _, ok := vC10Run(env, vT(env, text, num)); !ok {
		vAssert(false, "record-builds")
		return
	}
	vMapOrder(true, 3)
	back, ok := vC10Back(env, call)
	vMapOrder(false, 0)
	vAssert(ok, "method-call-succeeds-under-every-map-order")
	if !ok {
		return
	}
	if k == 2 {
		b, isInt := back.(*SexpInt)
		vAssert(isInt && b.Val == num.Val, "method-result-independent-of-map-order")
	} else {
		vAssert(vC10Same(env, vC10Hash(env, "x"), back), "record-handed-back-independent-of-map-order")
	}
	vReachIdx("order-shape", k, 3)
}

// vh_C10_time: a time field.  Forward: the Go field holds the record's time.
// Back: the record a method hands back carries it.
func vh_C10_time() {
	vFormatOpaque(true)
	env := vC10Env(0)
	tm := &SexpTime{Tm: time.Unix(1700000000+int64(vChoice("secs", 3)), 0).UTC()}
	if _, ok := vC10Run(env, vT(env, `(def x (vrec t:9001 i:2)) (def o (vrec i:1))`, tm)); !ok {
		vAssert(false, "record-builds")
		return
	}
	_, err, p := vEvalString(env, `(togo x)`)
	vAssert(!p && err == nil, "record-with-a-time-converts")
	if p || err != nil {
		return
	}
	g, isRec := vC10Hash(env, "x").GoShadowStruct.(*VRec)
	vAssert(isRec && g != nil && g.T.Equal(tm.Tm) && g.I == 2, "time-field-filled-exactly")
	back, ok := vC10Back(env, `(_method o Echo: x)`)
	vAssert(ok, "method-returning-a-struct-with-a-time-succeeds")
	if ok {
		vAssert(vC10Same(env, vC10Hash(env, "x"), back), "time-field-comes-back-equal")
	}
	vReach("time")
}

// vh_C10_demo: the repository's demo structs (snoopy, hornet, hellcat,
// plane, weather, eventdemo, persondemo, setOfPlanes) with symbolic contents:
// fields reached through two levels of embedding (Snoopy.Plane.Wings.SpanCm),
// an []int field, interface-typed fields and slices holding other registered
// structs with sharing, a by-value nested struct (Event.User), and the
// repository's own identity method (EchoWeather).
func vh_C10_demo() {
	vFormatOpaque(true)
	env := vC10Env(0)
	k := vChoice("case", 4)
	switch k {
	case 0:
		speed, id, span := vC10Small("speed"), vC10Small("id"), vC10Small("span")
		nick := vC10Str("nick", 2)
		mass := &SexpFloat{Val: vFloat64("mass")}
		vAssume(mass.Val == mass.Val)
		cry := vC10Str("cry", 2)
		p0, p1 := vC10Small("p0"), vC10Small("p1")
		sspeed, sspan := vC10Small("sspeed"), vC10Small("sspan")
		forms := vT(env, `(def he (hellcat speed:9001 id:9002))
(def ho (hornet SpanCm:9003 nickname:9004 mass:9005))
(def sn (snoopy cry:9006 pack:[9007 9008] chld:he friends:[he ho] carrying:[ho] speed:9009 SpanCm:9010))`,
			speed, id, span, nick, mass, cry, p0, p1, sspeed, sspan)
		if _, ok := vC10Run(env, forms); !ok {
			vAssert(false, "record-builds")
			return
		}
		vMapOrder(true, 3)
		_, err, p := vEvalString(env, `(togo sn)`)
		vMapOrder(false, 0)
		vAssert(!p && err == nil, "snoopy-with-shared-friends-converts")
		if p || err != nil {
			return
		}
		g, isSn := vC10Hash(env, "sn").GoShadowStruct.(*Snoopy)
		if !isSn || g == nil {
			vAssert(false, "record-has-its-go-struct-attached")
			return
		}
		vAssert(g.Cry == cry.S && int64(g.Speed) == sspeed.Val && int64(g.SpanCm) == sspan.Val, "fields-through-embedded-structs-filled-exactly")
		vAssert(len(g.Pack) == 2 && int64(g.Pack[0]) == p0.Val && int64(g.Pack[1]) == p1.Val, "int-slice-field-filled-exactly")
		he, isHe := g.Chld.(*Hellcat)
		vAssert(isHe && he != nil && int64(he.Speed) == speed.Val && int64(he.ID) == id.Val, "interface-field-holds-the-registered-struct")
		if len(g.Friends) != 2 || len(g.Carrying) != 1 {
			vAssert(false, "interface-slices-have-the-record's-length")
			return
		}
		ho, isHo := g.Friends[1].(*Hornet)
		vAssert(isHo && ho != nil && int64(ho.SpanCm) == span.Val && ho.Nickname == nick.S && ho.Mass == mass.Val, "slice-of-interfaces-holds-the-registered-structs")
		f0, _ := g.Friends[0].(*Hellcat)
		c0, _ := g.Carrying[0].(*Hornet)
		vAssert(f0 == he && c0 == ho, "a-record-referenced-twice-is-one-go-object")
		back, ok := vC10Back(env, `(_method sn GetCry:)`)
		bs, isStr := back.(*SexpStr)
		vAssert(ok && isStr && bs.S == cry.S, "method-sees-the-record's-field-value")
	case 1:
		id := vC10Small("id")
		first, last, flight, pilot := vC10Str("first", 2), vC10Str("last", 2), vC10Str("flight", 2), vC10Str("pilot", 2)
		canc := &SexpBool{Val: vBool("canc")}
		forms := vT(env, `(def ev (eventdemo id:9001 user:(persondemo first:9002 last:9003) flight:9004 pilot:[9005 "co"] cancelled:9006))`,
			id, first, last, flight, pilot, canc)
		if _, ok := vC10Run(env, forms); !ok {
			vAssert(false, "record-builds")
			return
		}
		_, err, p := vEvalString(env, `(togo ev)`)
		vAssert(!p && err == nil, "event-with-a-nested-person-converts")
		if p || err != nil {
			return
		}
		g, isEv := vC10Hash(env, "ev").GoShadowStruct.(*Event)
		vAssert(isEv && g != nil && int64(g.Id) == id.Val && g.User.First == first.S && g.User.Last == last.S && g.Flight == flight.S &&
			len(g.Pilot) == 2 && g.Pilot[0] == pilot.S && g.Pilot[1] == "co" && g.Cancelled == canc.Val, "event-fields-and-by-value-person-filled-exactly")
	case 2:
		size := &SexpInt{Val: vInt64("size")}
		typ := vC10Str("typ", 2)
		det := &SexpRaw{Val: vBytes("det", 2)}
		forms := vT(env, `(def w (weather size:9001 type:9002 details:9003)) (def sn (snoopy cry:"x"))`, size, typ, det)
		if _, ok := vC10Run(env, forms); !ok {
			vAssert(false, "record-builds")
			return
		}
		back, ok := vC10Back(env, `(_method sn EchoWeather: w)`)
		vAssert(ok, "method-returning-a-registered-struct-succeeds")
		if ok {
			vAssert(vC10Same(env, vC10Hash(env, "w"), back), "struct-handed-back-is-the-same-record")
		}
	case 3:
		s1, s2 := vC10Small("s1"), vC10Small("s2")
		forms := vT(env, `(def he (hellcat speed:9001)) (def ho (hornet speed:9002)) (def fleet (setOfPlanes flyers:[he ho he]))`, s1, s2)
		if _, ok := vC10Run(env, forms); !ok {
			vAssert(false, "record-builds")
			return
		}
		_, err, p := vEvalString(env, `(togo fleet)`)
		vAssert(!p && err == nil, "set-of-planes-converts")
		if p || err != nil {
			return
		}
		g, isSet := vC10Hash(env, "fleet").GoShadowStruct.(*SetOfPlanes)
		if !isSet || g == nil || len(g.Flyers) != 3 {
			vAssert(false, "set-of-planes-has-three-flyers")
			return
		}
		a, _ := g.Flyers[0].(*Hellcat)
		b, _ := g.Flyers[1].(*Hornet)
		c, _ := g.Flyers[2].(*Hellcat)
		vAssert(a != nil && b != nil && int64(a.Speed) == s1.Val && int64(b.Speed) == s2.Val, "slice-of-interfaces-holds-the-registered-structs")
		vAssert(a == c, "a-record-referenced-twice-is-one-go-object")
	}
	vReachIdx("demo-case", k, 4)
}

// vh_C10_embedded: fields at every level of a four-deep chain of embedded
// structs, and an outer struct whose field names shadow those of the struct
// it embeds: every entry lands in its own Go field, and every Go field comes
// back under its own key.  Contents symbolic and pairwise unconstrained, so a
// value ending up in a neighbouring slot is a counterexample.
func vh_C10_embedded() {
	vFormatOpaque(true)
	env := vC10Env(0)
	k := vChoice("shape", 3)
	route := vChoice("route", 3)
	var v [9]*SexpInt
	for i := range v {
		v[i] = &SexpInt{Val: vInt64("v" + string(rune('0'+i)))}
	}
	switch k {
	case 0:
		forms := vT(env, `(def x (vdeep low:9001 high:9002 step:9003 c1:9004 c2:9005 b1:9006 b2:9007 a1:9008 a2:9009)) (def o (vdeep a1:1))`,
			v[0], v[1], v[2], v[3], v[4], v[5], v[6], v[7], v[8])
		if _, ok := vC10Run(env, forms); !ok {
			vAssert(false, "record-builds")
			return
		}
	case 2:
		forms := vT(env, `(def x (vsame id:9001 other:9002)) (def o (vsame id:1))`, v[0], v[1])
		if _, ok := vC10Run(env, forms); !ok {
			vAssert(false, "record-builds")
			return
		}
	case 1:
		nm, bn := vC10Str("nm", 2), vC10Str("bn", 2)
		forms := vT(env, `(def x (vshadow id:9001 base_id:9002 only:9003 name:9004 base_name:9005)) (def o (vshadow id:1))`,
			v[0], v[1], v[2], nm, bn)
		if _, ok := vC10Run(env, forms); !ok {
			vAssert(false, "record-builds")
			return
		}
	}
	x := vC10Hash(env, "x")
	switch route {
	case 0:
		_, err, p := vEvalString(env, `(togo x)`)
		vAssert(!p && err == nil, "record-with-embedded-struct-fields-converts")
		if p || err != nil {
			return
		}
		if k == 0 {
			g, ok := x.GoShadowStruct.(*VDeep)
			vAssert(ok && g != nil && g.Low == v[0].Val && g.High == v[1].Val && g.Step == v[2].Val && g.C1 == v[3].Val && g.C2 == v[4].Val &&
				g.B1 == v[5].Val && g.B2 == v[6].Val && g.A1 == v[7].Val && g.A2 == v[8].Val, "every-level-of-embedding-filled-exactly")
		} else if k == 1 {
			g, ok := x.GoShadowStruct.(*VShadow)
			vAssert(ok && g != nil && g.ID == v[0].Val && g.VShBase.ID == v[1].Val && g.Only == v[2].Val, "shadowed-and-shadowing-fields-filled-exactly")
		} else {
			g, ok := x.GoShadowStruct.(*VSame)
			vAssert(ok && g != nil && g.ID == v[0].Val && g.Other == v[1].Val && g.VSameBase.ID == 0, "a-name-declared-twice-means-the-outer-field")
			back, okb := vC10Back(env, `(_method x GetID:)`)
			bi, isInt := back.(*SexpInt)
			vAssert(okb && isInt && bi.Val == v[0].Val, "go-method-sees-the-outer-field")
		}
	case 1:
		call := `(_method x Self:)`
		if k == 2 {
			call = `(_method x Echo: x)`
		}
		back, ok := vC10Back(env, call)
		vAssert(ok, "method-returning-a-struct-with-embedded-fields-succeeds")
		if ok {
			vAssert(vC10Same(env, x, back), "embedded-struct-fields-come-back-under-their-own-keys")
		}
	case 2:
		back, ok := vC10Back(env, `(_method o Echo: x)`)
		vAssert(ok, "method-returning-a-struct-with-embedded-fields-succeeds")
		if ok {
			vAssert(vC10Same(env, x, back), "embedded-struct-fields-come-back-under-their-own-keys")
		}
	}
	vReachIdx("embedded-shape", k, 3)
}

// vh_C10_history: a record that already has a Go struct attached (it went
// through togo, was a method argument before, or came back from a method) is
// changed by the script and converted again: the conversion uses the record's
// current entries - new values arrive, an entry the struct cannot take is
// reported.  (A receiver keeps its attached struct by design: the Go object
// is the live one; that route is not part of this harness.)
func vh_C10_history() {
	vFormatOpaque(true)
	env := vC10Env(0)
	first := vChoice("first", 4)
	change := vChoice("change", 4)
	again := vChoice("again", 2)
	n1, n2 := &SexpInt{Val: vInt64("n1")}, &SexpInt{Val: vInt64("n2")}
	if _, ok := vC10Run(env, vT(env, `(def x (vleaf name:"a" num:9001)) (def o (vrec i:1)) (def nv 9002)`, n1, n2)); !ok {
		vAssert(false, "record-builds")
		return
	}
	var pre string
	switch first {
	case 0:
		pre = `(def unused 0)`
	case 1:
		pre = `(togo x)`
	case 2:
		pre = `(_method o EchoLeaf: x)`
	case 3:
		pre = `(def x (aget (_method o EchoLeaf: x) 0))`
	}
	if _, err, p := vEvalString(env, pre); p || err != nil {
		vAssert(false, "first-conversion-succeeds")
		return
	}
	var chg string
	switch change {
	case 0:
		chg = `(hset x num: nv)`
	case 1:
		chg = `(hset x name: "b")`
	case 2:
		chg = `(hset x bogus: 1)`
	case 3:
		chg = `(hset x num: "seven")`
	}
	if _, err, p := vEvalString(env, chg); p || err != nil {
		vAssert(false, "record-can-be-changed")
		return
	}
	bad := change >= 2
	if again == 0 {
		_, err, p := vEvalString(env, `(togo x)`)
		vAssert(!p, "no-panic-escapes")
		if bad {
			vAssert(p || err != nil, "entry-the-struct-cannot-take-is-reported-after-a-change")
		} else {
			vAssert(!p && err == nil, "changed-record-converts-again")
			if !p && err == nil {
				g, ok := vC10Hash(env, "x").GoShadowStruct.(*VLeaf)
				switch change {
				case 0:
					vAssert(ok && g != nil && g.Num == n2.Val && g.Name == "a", "go-struct-holds-the-record's-current-values")
				case 1:
					vAssert(ok && g != nil && g.Num == n1.Val && g.Name == "b", "go-struct-holds-the-record's-current-values")
				}
			}
		}
	} else {
		back, ok := vC10Back(env, `(_method o EchoLeaf: x)`)
		if bad {
			vAssert(!ok, "entry-the-struct-cannot-take-is-reported-after-a-change")
		} else {
			vAssert(ok, "changed-record-passes-as-an-argument")
			if ok {
				vAssert(vC10Same(env, vC10Hash(env, "x"), back), "go-method-sees-the-record's-current-values")
			}
		}
	}
	vReach("history")
}

// vh_C10_methods: the call glue.  Arguments of every marshalled kind arrive
// in the Go method with the values the script passed (symbolic), in their
// positions; every result comes back in its position with its value; a Go
// error result is an error value the script sees; a wrong argument count, an
// unknown method, an argument of the wrong kind are refused.
func vh_C10_methods() {
	vFormatOpaque(true)
	env := vC10Env(0)
	ri := &SexpInt{Val: vInt64("ri")}
	rs := vC10Str("rs", 2)
	a, b := &SexpInt{Val: vInt64("a")}, &SexpInt{Val: vInt64("b")}
	t := vC10Str("t", 2)
	if _, ok := vC10Run(env, vT(env, `(def o (vrec i:9001 s:9002)) (def l1 (vleaf name:"one" num:9003)) (def l2 (vleaf name:"two" num:9004)) (def ss 9005)`, ri, rs, a, b, t)); !ok {
		vAssert(false, "record-builds")
		return
	}
	call := func(src string) ([]Sexp, bool) {
		res, err, p := vEvalString(env, src)
		if p || err != nil {
			return nil, false
		}
		arr, isArr := res.(*SexpArray)
		if !isArr {
			return nil, false
		}
		return arr.Val, true
	}
	k := vChoice("method", 14)
	switch k {
	case 12: // a method that changes its receiver and hands it back: the record that comes back shows the Go struct as it is now
		out, ok := call(`(_method o WithI: (hget l2 num:))`)
		vAssert(ok && len(out) == 1, "mutated-receiver-comes-back")
		if ok && len(out) == 1 {
			h, isH := out[0].(*SexpHash)
			vAssert(isH && h.TypeName == "vrec", "struct-result-is-a-record-of-its-type")
			if isH {
				iv, e1 := h.HashGet(env, env.MakeSymbol("i"))
				ii, oki := iv.(*SexpInt)
				vAssert(e1 == nil && oki && ii.Val == b.Val, "record-handed-back-has-the-go-struct's-current-values")
			}
		}
		out2, ok2 := call(`(_method o GetI:)`)
		vAssert(ok2 && len(out2) == 1, "later-call-on-the-receiver-succeeds")
		if ok2 && len(out2) == 1 {
			x, okx := out2[0].(*SexpInt)
			vAssert(okx && x.Val == b.Val, "later-calls-see-the-go-side-change")
		}
	case 13: // a method that changes its receiver: later calls act on the same Go object
		o1, ok1 := call(`(_method o Bump:)`)
		o2, ok2 := call(`(_method o Bump:)`)
		o3, ok3 := call(`(_method o Self:)`)
		vAssert(ok1 && ok2 && ok3 && len(o1) == 1 && len(o2) == 1 && len(o3) == 1, "calls-succeed")
		if ok1 && ok2 && ok3 && len(o1) == 1 && len(o2) == 1 && len(o3) == 1 {
			x1, _ := o1[0].(*SexpInt)
			x2, _ := o2[0].(*SexpInt)
			h, isH := o3[0].(*SexpHash)
			vAssert(x1 != nil && x2 != nil && x1.Val == ri.Val+1 && x2.Val == ri.Val+2, "receiver-is-one-go-object-across-calls")
			if isH {
				iv, _ := h.HashGet(env, env.MakeSymbol("i"))
				ii, oki := iv.(*SexpInt)
				vAssert(oki && ii.Val == ri.Val+2, "record-handed-back-has-the-go-struct's-current-values")
			}
		}
	case 0:
		out, ok := call(`(_method o Pair: (hget l1 num:) ss)`)
		vAssert(ok && len(out) == 2, "two-results-come-back-as-two-elements")
		if ok && len(out) == 2 {
			x, okx := out[0].(*SexpInt)
			y, oky := out[1].(*SexpStr)
			vAssert(okx && oky && x.Val == a.Val+ri.Val && y.S == t.S+rs.S, "arguments-and-results-keep-their-positions-and-values")
		}
	case 1:
		out, ok := call(`(_method o Fail: 0)`)
		vAssert(ok && len(out) == 1 && out[0] == SexpNull, "nil-error-result-is-nil")
	case 2:
		out, ok := call(`(_method o Fail: 7)`)
		vAssert(ok && len(out) == 1, "error-result-comes-back")
		if ok && len(out) == 1 {
			_, isErr := out[0].(*SexpError)
			vAssert(isErr, "go-error-result-is-an-error-value")
		}
	case 3:
		out, ok := call(`(_method o RawOf: ss)`)
		vAssert(ok && len(out) == 1, "byte-slice-result-comes-back")
		if ok && len(out) == 1 {
			r, isRaw := out[0].(*SexpRaw)
			vAssert(isRaw && string(r.Val) == t.S+rs.S, "byte-slice-result-holds-the-bytes")
		}
	case 4:
		out, ok := call(`(_method o Half: 5.0)`)
		vAssert(ok && len(out) == 1, "float-result-comes-back")
		if ok && len(out) == 1 {
			f, isF := out[0].(*SexpFloat)
			vAssert(isF && f.Val == 2.5, "float-argument-and-result-exact")
		}
	case 5:
		out, ok := call(`(_method o Sum: [(hget l1 num:) (hget l2 num:) 1])`)
		vAssert(ok && len(out) == 1, "slice-argument-accepted")
		if ok && len(out) == 1 {
			x, okx := out[0].(*SexpInt)
			vAssert(okx && x.Val == a.Val+b.Val+1+ri.Val, "slice-argument-arrives-element-by-element")
		}
	case 6:
		out, ok := call(`(_method o NumOf: l2)`)
		vAssert(ok && len(out) == 1, "record-argument-accepted")
		if ok && len(out) == 1 {
			x, okx := out[0].(*SexpInt)
			vAssert(okx && x.Val == b.Val, "record-argument-arrives-as-its-struct")
		}
	case 7:
		out, ok := call(`(_method o Swap: l1 l2)`)
		vAssert(ok && len(out) == 1, "two-record-arguments-accepted")
		if ok && len(out) == 1 {
			h, isH := out[0].(*SexpHash)
			vAssert(isH && h.TypeName == "vleaf", "struct-result-is-a-record-of-its-type")
			if isH {
				n, e1 := h.HashGet(env, env.MakeSymbol("num"))
				nm, e2 := h.HashGet(env, env.MakeSymbol("name"))
				ni, okn := n.(*SexpInt)
				ns, oks := nm.(*SexpStr)
				// Swap returns its second argument after exchanging the numbers
				vAssert(e1 == nil && e2 == nil && okn && oks && ni.Val == a.Val && ns.S == "two", "record-arguments-keep-their-positions")
			}
		}
	case 8:
		// a record for an interface-typed *parameter*: the statement speaks of
		// interface-typed fields only; refused or right, never wrong
		out, ok := call(`(_method o AreaOf: l1)`)
		if ok {
			vAssert(len(out) == 1, "one-result")
			if len(out) == 1 {
				x, okx := out[0].(*SexpInt)
				vAssert(okx && x.Val == a.Val, "interface-parameter-receives-the-registered-struct")
			}
		}
	case 9:
		out, ok := call(`(_method o Nothing:)`)
		vAssert(ok && len(out) == 0, "method-without-results-yields-an-empty-array")
	case 10:
		for _, src := range []string{`(_method o Pair: 1)`, `(_method o Pair: 1 "x" 2)`, `(_method o Nothing: 1)`, `(_method o NoSuchMethod:)`, `(_method o pair: 1 "x")`} {
			_, err, p := vEvalString(env, src)
			vAssert(!p, "no-panic-escapes")
			vAssert(p || err != nil, "wrong-count-or-unknown-method-is-refused")
		}
	case 11:
		for _, src := range []string{`(_method o Pair: "x" 1)`, `(_method o Half: "x")`, `(_method o Sum: [1 "a"])`, `(_method o NumOf: 5)`, `(_method o NumOf: (vbox w:1))`, `(_method o AreaOf: (vrec i:1))`, `(_method o AreaOf: 5)`} {
			_, err, p := vEvalString(env, src)
			vAssert(!p, "no-panic-escapes")
			vAssert(p || err != nil, "argument-of-the-wrong-kind-is-refused")
		}
	}
	res, err2, p2 := vEvalString(env, `(+ 1 2)`)
	r3, isInt := res.(*SexpInt)
	vAssert(!p2 && err2 == nil && isInt && r3.Val == 3, "interpreter-usable-afterwards")
	vC04AtRest(env, "after-method-call")
	vReachIdx("method", k, 14)
}

// vh_C10_maps: map-typed fields (string->string, string->float64,
// int64->float64, string->interface holding a registered struct) filled from
// hashes with symbolic values; a value the map's element type cannot hold is
// refused.
func vh_C10_maps() {
	vFormatOpaque(true)
	env := vC10Env(0)
	k := vChoice("case", 6)
	sv := vC10Str("sv", 2)
	fv := &SexpFloat{Val: vFloat64("fv")}
	vAssume(fv.Val == fv.Val)
	iv := &SexpInt{Val: vInt64("iv")}
	vAssume(uint64(iv.Val+(1<<52)) <= (1 << 53))
	n := &SexpInt{Val: vInt64("n")}
	var text string
	switch k {
	case 0:
		text = `(def x (vmaps ss:(hash a:"one" b:9001)))`
	case 1:
		text = `(def x (vmaps sf:(hash a:9002 b:9003)))`
	case 2:
		text = `(def x (vmaps if:(hash 1 9002 2 9003)))`
	case 3:
		text = `(def x (vmaps si:(hash a:(vleaf name:"in" num:9004) b:(vbox w:9004))))`
	case 4:
		text = `(def x (vmaps ss:(hash a:5)))`
	case 5:
		text = `(def x (vmaps sf:(hash a:"str")))`
	}
	if _, ok := vC10Run(env, vT(env, text, sv, fv, iv, n)); !ok {
		vAssert(false, "record-builds")
		return
	}
	_, err, p := vEvalString(env, `(togo x)`)
	vAssert(!p, "no-panic-escapes")
	if k >= 4 {
		vAssert(p || err != nil, "map-value-of-the-wrong-kind-is-refused")
		vReachIdx("maps-case", k, 6)
		return
	}
	vAssert(!p && err == nil, "record-with-a-map-field-converts")
	if p || err != nil {
		return
	}
	g, isM := vC10Hash(env, "x").GoShadowStruct.(*VMaps)
	if !isM || g == nil {
		vAssert(false, "record-has-its-go-struct-attached")
		return
	}
	switch k {
	case 0:
		vAssert(len(g.SS) == 2 && g.SS["a"] == "one" && g.SS["b"] == sv.S, "string-map-filled-exactly")
	case 1:
		vAssert(len(g.SF) == 2 && g.SF["a"] == fv.Val && g.SF["b"] == float64(iv.Val), "float-map-filled-exactly")
	case 2:
		vAssert(len(g.IF) == 2 && g.IF[1] == fv.Val && g.IF[2] == float64(iv.Val), "int-keyed-map-filled-exactly")
	case 3:
		l, isL := g.SI["a"].(*VLeaf)
		b, isB := g.SI["b"].(*VBox)
		vAssert(len(g.SI) == 2 && isL && isB && l.Num == n.Val && l.Name == "in" && b.W == n.Val, "interface-map-holds-the-registered-structs")
	}
	vReachIdx("maps-case", k, 6)
}

// vh_C10_nil: a field the script sets to nil after the record was converted:
// the next conversion writes the record's current entries into the same Go
// struct, so the field is empty there too (zero value), whatever its kind.
func vh_C10_nil() {
	vFormatOpaque(true)
	env := vC10Env(0)
	fields := []string{"s", "i", "b", "f", "v", "p", "any", "ints", "raw", "bases", "m"}
	k := vChoice("field", len(fields))
	iv := &SexpInt{Val: vInt64("iv")}
	sv := vC10Str("sv", 2)
	forms := vT(env, `(def x (vrec s:9002 i:9001 b:true f:2.5 v:(vleaf name:"v" num:9001) p:(vleaf name:"p" num:9001) any:(vleaf name:"y" num:9001) ints:[9001 2] raw:(raw "ab") bases:9002 m:(hash a:"x") n:7))`, iv, sv)
	if _, ok := vC10Run(env, forms); !ok {
		vAssert(false, "record-builds")
		return
	}
	if _, err, p := vEvalString(env, `(togo x)`); p || err != nil {
		vAssert(false, "first-conversion-succeeds")
		return
	}
	if _, err, p := vEvalString(env, `(hset x `+fields[k]+`: nil)`); p || err != nil {
		vAssert(false, "record-can-be-changed")
		return
	}
	_, err, p := vEvalString(env, `(togo x)`)
	vAssert(!p && err == nil, "record-with-a-nil-entry-converts-again")
	if p || err != nil {
		return
	}
	g, ok := vC10Hash(env, "x").GoShadowStruct.(*VRec)
	if !ok || g == nil {
		vAssert(false, "record-has-its-go-struct-attached")
		return
	}
	var empty bool
	switch fields[k] {
	case "s":
		empty = g.S == ""
	case "i":
		empty = g.I == 0
	case "b":
		empty = !g.B
	case "f":
		empty = g.F == 0
	case "v":
		empty = g.V == (VLeaf{})
	case "p":
		empty = g.P == nil
	case "any":
		empty = g.Any == nil
	case "ints":
		empty = len(g.Ints) == 0
	case "raw":
		empty = len(g.Raw) == 0
	case "bases":
		empty = g.BaseS == ""
	case "m":
		empty = len(g.M) == 0
	}
	vAssert(empty, "field-set-to-nil-is-empty-in-the-go-struct:"+fields[k])
	vAssert(g.N == 7, "other-fields-keep-their-values")
	vReach("nil")
}

// two struct types registered, one after the other, under one record name
type VRegA struct {
	Height int64 `json:"height"`
	Width  int64 `json:"width"`
}
type VRegB struct {
	Width  int64  `json:"width"`
	Height int64  `json:"height"`
	Label  string `json:"label"`
}

func (r *VRegA) Area() int64  { return r.Height * 1000 }
func (r *VRegB) Area() int64  { return r.Height }
func (r *VRegB) Self() *VRegB { return r }

// vh_C10_reregister: an embedding program registers a record name again for
// a struct of another layout: records made afterwards convert to the struct
// registered now - its fields, its methods - in both directions.
func vh_C10_reregister() {
	vFormatOpaque(true)
	env := vC10Env(0)
	reg := func(second bool) {
		GoStructRegistry.RegisterUserdef(&RegisteredType{GenDefMap: true, Factory: func(env *Zlisp, h *SexpHash) (interface{}, error) {
			if second {
				return &VRegB{}, nil
			}
			return &VRegA{}, nil
		}}, true, "vreg")
	}
	hv, wv := &SexpInt{Val: vInt64("h")}, &SexpInt{Val: vInt64("w")}
	reg(false)
	env.ImportBaseTypes()
	used := vChoice("used-before", 3)
	switch used {
	case 1:
		if _, ok := vC10Run(env, vT(env, `(def old (vreg height:1 width:2)) (togo old)`)); !ok {
			vAssert(false, "first-registration-usable")
			return
		}
	case 2:
		if _, ok := vC10Run(env, vT(env, `(def old (vreg height:1 width:2)) (_method old Area:)`)); !ok {
			vAssert(false, "first-registration-usable")
			return
		}
	}
	reg(true)
	env.ImportBaseTypes()
	if _, ok := vC10Run(env, vT(env, `(def x (vreg height:9001 width:9002 label:"l"))`, hv, wv)); !ok {
		vAssert(false, "record-of-the-re-registered-name-builds")
		return
	}
	_, err, p := vEvalString(env, `(togo x)`)
	vAssert(!p && err == nil, "record-converts-to-the-struct-registered-now")
	if p || err != nil {
		return
	}
	g, ok := vC10Hash(env, "x").GoShadowStruct.(*VRegB)
	vAssert(ok && g != nil && g.Height == hv.Val && g.Width == wv.Val && g.Label == "l", "fields-of-the-current-struct-filled-exactly")
	back, okb := vC10Back(env, `(_method x Area:)`)
	bi, isInt := back.(*SexpInt)
	vAssert(okb && isInt && bi.Val == hv.Val, "methods-of-the-current-struct-are-called")
	rec, okr := vC10Back(env, `(_method x Self:)`)
	vAssert(okr && vC10Same(env, vC10Hash(env, "x"), rec), "current-struct-comes-back-as-the-same-record")
	vReachIdx("reregister", used, 3)
}
