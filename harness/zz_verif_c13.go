//go:build verif

package zygo

// C13 — parsing depends only on the text: not on chunking, not on history.

import (
	"bufio"
	"bytes"
	"strings"
	"reflect"
)

// vParse runs one text through ResetAddNewInput + ParseTokens.
func vParse(env *Zlisp, txt string) (xs []Sexp, err error, panicked bool) {
	defer func() {
		if r := recover(); r != nil {
			switch r.(type) {
			case vAssumeFailed, vDoneSignal:
				panic(r)
			}
			panicked = true
		}
	}()
	env.parser.ResetAddNewInput(bytes.NewBuffer([]byte(txt)))
	xs, err = env.parser.ParseTokens()
	return
}

// vErrKind: 0 none, 1 more input needed, 2 other error.
func vErrKind(err error) int {
	switch {
	case err == nil:
		return 0
	case err == ErrMoreInputNeeded:
		return 1
	}
	return 2
}

// vSexpEq is structural equality of parsed data.
func vSexpEq(a, b Sexp) bool {
	if a == nil || b == nil {
		return a == nil && b == nil
	}
	switch x := a.(type) {
	case *SexpInt:
		y, ok := b.(*SexpInt)
		return ok && x.Val == y.Val
	case *SexpUint64:
		y, ok := b.(*SexpUint64)
		return ok && x.Val == y.Val
	case *SexpChar:
		y, ok := b.(*SexpChar)
		return ok && x.Val == y.Val
	case *SexpBool:
		y, ok := b.(*SexpBool)
		return ok && x.Val == y.Val
	case *SexpFloat:
		y, ok := b.(*SexpFloat)
		return ok && (x.Val == y.Val || (x.Val != x.Val && y.Val != y.Val))
	case *SexpStr:
		y, ok := b.(*SexpStr)
		return ok && x.S == y.S && x.backtick == y.backtick
	case *SexpSymbol:
		y, ok := b.(*SexpSymbol)
		return ok && x.name == y.name && x.isDot == y.isDot && x.colonTail == y.colonTail
	case *SexpComment:
		y, ok := b.(*SexpComment)
		return ok && x.Comment == y.Comment && x.Block == y.Block
	case *SexpPair:
		y, ok := b.(*SexpPair)
		return ok && vSexpEq(x.Head, y.Head) && vSexpEq(x.Tail, y.Tail)
	case *SexpArray:
		y, ok := b.(*SexpArray)
		if !ok || len(x.Val) != len(y.Val) {
			return false
		}
		for i := range x.Val {
			if !vSexpEq(x.Val[i], y.Val[i]) {
				return false
			}
		}
		return true
	case *SexpHash:
		y, ok := b.(*SexpHash)
		return ok && x.TypeName == y.TypeName && x.NumKeys == y.NumKeys
	case *SexpSentinel:
		y, ok := b.(*SexpSentinel)
		return ok && x.Val == y.Val
	}
	return reflect.TypeOf(a) == reflect.TypeOf(b)
}

func vSexpListEq(a, b []Sexp) bool {
	if len(a) != len(b) {
		return false
	}
	for i := range a {
		if !vSexpEq(a[i], b[i]) {
			return false
		}
	}
	return true
}

func vC13Len() int {
	if vTier() == 1 {
		return 3
	}
	return 2
}

// the token alphabet of the thorough tier's longest texts: brackets, quotes,
// backslash, the punctuation the lexer treats specially, one letter (also the
// exponent marker), one digit, blank and newline
var vC13TokenAlphabet = []byte("()[]{}\"'\\`:;,.-+*/=ea1 \n~^#$")

// vC13String: n arbitrary bytes; texts longer than the quick tier's (only
// explored in the thorough tier) are drawn from the token alphabet, which
// keeps the number of paths (character classes ^ length) inside the path cap.
func vC13String(name string, n int, full int) string {
	if n <= full {
		return vString(name, n)
	}
	b := make([]byte, n)
	for i := range b {
		k := vUint8(name + "k")
		vAssume(int(k) < len(vC13TokenAlphabet))
		b[i] = vC13TokenAlphabet[k]
	}
	return string(b)
}

// vh_C13_history: the lexer of an interpreter that has parsed anything at
// all before (every scalar of its state arbitrary, junk in its buffer and
// token queue) reads a text exactly like a fresh one.
func vh_C13_history() {
	vFormatOpaque(true)
	es := vEnvs(2)
	fresh, used := es[0], es[1]
	lx := used.parser.lexer
	vHavoc("lex", lx, 1)
	// representation invariant of the look-back ring: a valid index; the
	// positions explored are the two ends and one interior slot (stated bound)
	lx.priori = []int{0, 1, len(lx.priorRune) - 1}[vChoice("ringpos", 3)]
	lx.buffer.WriteString(vString("junkbuf", 2))
	lx.tokens = append(lx.tokens, Token{typ: TokenSymbol, str: "junk"})
	// the text: every short byte string, or one of the longer texts that
	// exercise each lexer feature (numeric escapes, signs, operators, ...)
	var txt string
	if k := vChoice("text", 1+len(vC13Features)); k == 0 {
		n := 1 + vChoice("len", vC13Len())
		txt = vC13String("t", n, 2)
	} else {
		txt = vC13Features[k-1]
	}
	a, errA, pA := vParse(fresh, txt)
	b, errB, pB := vParse(used, txt)
	vAssert(pA == pB, "same-panic-behaviour")
	if pA || pB {
		return
	}
	vAssert(vErrKind(errA) == vErrKind(errB), "same-error-kind")
	vAssert(vSexpListEq(a, b), "same-expressions")
	vReach("history")
}

// vh_C13_secondparse: the same through the public API only: an arbitrary
// first text (evaluated or failed), then the second text; compared with a
// fresh interpreter reading the second text.
func vh_C13_secondparse() {
	vFormatOpaque(true)
	es := vEnvs(2)
	fresh, used := es[0], es[1]
	n1 := 1 + vChoice("len1", vC13Len())
	first := vC13String("first", n1, 2)
	_, _, p1 := vParse(used, first)
	if p1 {
		vDone() // crashes are C01's business
	}
	txt := vC13Seconds[vChoice("second", len(vC13Seconds))]
	a, errA, pA := vParse(fresh, txt)
	b, errB, pB := vParse(used, txt)
	vAssert(pA == pB, "same-panic-behaviour")
	if pA || pB {
		return
	}
	vAssert(vErrKind(errA) == vErrKind(errB), "same-error-kind")
	vAssert(vSexpListEq(a, b), "same-expressions")
	vReach("second-parse")
}

// second texts whose reading consults the lexer's look-back state
var vC13Seconds = []string{"-1 ", "+1 ", "a-1 ", "(- 1) ", "-a ", "1 ", "'a' ", ".5 ", "\"s\" ", ":a "}

// vh_C13_chunks: text delivered whole vs cut in two, the second piece given
// when (and only when) the parser paused asking for more input.
func vh_C13_chunks() {
	vFormatOpaque(true)
	es := vEnvs(2)
	whole, pieces := es[0], es[1]
	// the text: every short byte string, or one of the feature texts
	// (strings with escapes, signed numbers, dotted pairs, infix blocks,
	// comments, ...); every cut position
	var txt string
	if k := vChoice("text", 1+len(vC13ChunkTexts)); k == 0 {
		n := 2 + vChoice("len", vC13Len())
		txt = vC13String("t", n, 3)
	} else {
		txt = vC13ChunkTexts[k-1]
	}
	n := len(txt)
	cut := 1 + vChoice("cut", n-1)
	// pieces of *text*: a cut inside the UTF-8 encoding of one character is
	// outside the claim
	vAssume(txt[cut]&0xC0 != 0x80)
	a, errA, pA := vParse(whole, txt)
	if pA {
		vDone()
	}
	b, errB, pB := vParse(pieces, txt[:cut])
	if pB {
		vDone()
	}
	if errB != ErrMoreInputNeeded {
		vDone() // the parser did not pause: the rest would be a new text
	}
	vReach("paused")
	func() {
		defer func() {
			if r := recover(); r != nil {
				switch r.(type) {
				case vAssumeFailed, vDoneSignal:
					panic(r)
				}
				pB = true
			}
		}()
		pieces.parser.NewInput(bytes.NewBuffer([]byte(txt[cut:])))
		b, errB = pieces.parser.ParseTokens()
	}()
	vAssert(!pB, "resume-does-not-panic")
	if pB {
		return
	}
	vAssert(vErrKind(errA) == vErrKind(errB), "chunked-same-error-kind")
	if errA == nil && errB == nil {
		// a text that fails to parse yields its error; which of the
		// expressions before the failure are handed back with it is not
		// part of what the text denotes
		vAssert(vSexpListEq(a, b), "chunked-same-expressions")
	}
	vReach("chunks")
}

// vh_C13_lasttoken: a text that is one complete atom followed by a
// terminator reads as that atom; without the terminator it must read as the
// same atom (the last token of a text is never lost).
func vh_C13_lasttoken() {
	vFormatOpaque(true)
	es := vEnvs(2)
	withSpace, bare := es[0], es[1]
	n := 1 + vChoice("len", vC13Len())
	txt := vC13String("t", n, 2)
	a, errA, pA := vParse(withSpace, txt+"\n")
	if pA || errA != nil || len(a) != 1 {
		vDone()
	}
	// only atoms: the terminator must not be part of an open construct
	switch a[0].(type) {
	case *SexpInt, *SexpSymbol, *SexpBool, *SexpChar, *SexpUint64, *SexpFloat, *SexpStr:
	default:
		vDone()
	}
	b, errB, pB := vParse(bare, txt)
	vAssert(!pB, "bare-no-panic")
	if pB {
		return
	}
	vAssert(errB == nil, "bare-no-error")
	vAssert(vSexpListEq(a, b), "last-token-not-lost")
	vReach("lasttoken")
}

// texts cut at every position by vh_C13_chunks
var vC13ChunkTexts = []string{
	"(a \\ b)", "(a \\ (b c))", "[1, 2 ,3]", "[\"a\", \"b\"]", "{a: 1 b: 2}", "{\"k\": [1 2]}", "{a + b * c}", "(def s \"x y\\\"z\")",
	"(f `raw ) text` 2)", "(a /* c ( */ b)", "(a // c (\n b)", "-1.5e-3 ", "(- 1 -2)", "'a' 'b'", "a:=1 ", "(quote ~@x)", "^(a ~b ~@c)", "x.y.z ",
	"(a ; b\n c)", "{a = 1; b = 2}", "(fn [a b] (+ a b))", "\"é\" 'é'",
}

// longer concrete texts covering the lexer's features, read by the havocked
// lexer in vh_C13_history and after arbitrary first texts
var vC13Features = []string{
	`"\x41\u00e9\U0001F600"`, `'\x41'`, `'\u00e9'`, `"a\n\t\"b"`, "-1.5e-3 ", "+2 ", "a-1 ", "1-a ", "(a . b)", "[1 2,3]",
	"{a + b * c}", "x.y.z ", ":=", "a:=1 ", "~@x ", "^(a ~b)", "`raw string`", "// c\n1 ", "/* b */ 2 ", "0x1F 0o17 0b101 5ULL ",
	"a: b ", "#x ", "$y ", "1e5 ", ".5 ", "-Inf ", "'a' ", "true false nil ",
}

// vOffsets: how a piece of text is read does not depend on where in its text
// it stands.  After a prefix of complete atoms ("7 7 7 ...", ending in a
// blank) of every length up to past two turns of the lexer's look-back
// memory, the text T - every short byte string, or one of the feature texts
// - yields the prefix's atoms followed by exactly what T yields on its own.
func vOffsets(label string, texts []string, symbolic bool) {
	vFormatOpaque(true)
	env := vEnvs(1)[0]
	noff := 24
	if vTier() == 1 {
		noff = 44
	}
	off := vChoice("offset", noff)
	prefix := ""
	for len(prefix)+2 <= off {
		prefix += "7 "
	}
	if len(prefix) < off {
		prefix += " "
	}
	nsevens := off / 2
	var txt string
	if !symbolic {
		txt = texts[vChoice("text", len(texts))]
	} else if k := vChoice("text", 1+len(texts)); k == 0 {
		n := 1 + vChoice("len", vC13Len())
		txt = vC13String("t", n, 2)
	} else {
		txt = texts[k-1]
	}
	alone, errA, pA := vParse(env, txt)
	placed, errB, pB := vParse(env, prefix+txt)
	vAssert(pA == pB, label+"-same-panic-behaviour")
	if pA || pB {
		return
	}
	vAssert(vErrKind(errA) == vErrKind(errB), label+"-same-error-kind-at-every-offset")
	if errA != nil || errB != nil {
		vReach(label + ":error")
		return
	}
	vAssert(len(placed) == nsevens+len(alone), label+"-same-number-of-expressions-at-every-offset")
	if len(placed) != nsevens+len(alone) {
		return
	}
	for i := 0; i < nsevens; i++ {
		iv, isI := placed[i].(*SexpInt)
		vAssert(isI && iv.Val == 7, label+"-prefix-atoms-intact")
	}
	vAssert(vSexpListEq(placed[nsevens:], alone), label+"-same-expressions-at-every-offset")
	vReach(label)
}

func vh_C13_offsets() { vOffsets("offsets", vC13Features, true) }

// ---- "asks for more input exactly when the text is an unfinished prefix" ----

const (
	vC13Complete = iota
	vC13Unfinished
	vC13Mismatch
)

// vC13Classify is the reference: a text over the alphabet below is an
// unfinished prefix iff it ends inside a string, a raw string or a block
// comment, or with a bracket still open; a closing bracket that does not
// match the innermost open one (or has none) is a mismatch (nothing is
// asserted about those).  Written from the documented lexical structure:
// "..." strings, `...` raw strings, /* ... */ block comments (the closing
// star cannot be the opening one), // line comments up to the newline.
func vC13Classify(t string) int {
	var stack []byte
	i := 0
	for i < len(t) {
		c := t[i]
		// a quote or backtick directly behind an atom character is rejected
		// by the lexer ("Unexpected quote"): not a string start
		if (c == '"' || c == '`') && i > 0 && (t[i-1] == 'a' || t[i-1] == '*' || t[i-1] == '/') {
			return vC13Mismatch
		}
		switch {
		case c == '"':
			j := i + 1
			for j < len(t) && t[j] != '"' {
				j++
			}
			if j >= len(t) {
				return vC13Unfinished
			}
			i = j + 1
		case c == '`':
			j := i + 1
			for j < len(t) && t[j] != '`' {
				j++
			}
			if j >= len(t) {
				return vC13Unfinished
			}
			i = j + 1
		case c == '/' && i+1 < len(t) && t[i+1] == '*':
			j := i + 2
			for j+1 < len(t) && !(t[j] == '*' && t[j+1] == '/') {
				j++
			}
			if j+1 >= len(t) {
				return vC13Unfinished
			}
			i = j + 2
		case c == '/' && i+1 < len(t) && t[i+1] == '/':
			j := i + 2
			for j < len(t) && t[j] != '\n' {
				j++
			}
			i = j
		case c == '(' || c == '[' || c == '{':
			stack = append(stack, c)
			i++
		case c == ')' || c == ']' || c == '}':
			open := map[byte]byte{')': '(', ']': '[', '}': '{'}[c]
			if len(stack) == 0 || stack[len(stack)-1] != open {
				return vC13Mismatch
			}
			stack = stack[:len(stack)-1]
			i++
		default:
			i++
		}
	}
	if len(stack) > 0 {
		return vC13Unfinished
	}
	return vC13Complete
}

var vC13Alphabet = []byte{'(', ')', '[', ']', '{', '}', '"', '`', '/', '*', 'a', ' ', '\n'}

// vh_C13_moreinput: every text of up to 4 (thorough 5) characters over the
// bracket/string/comment alphabet: the parser answers "more input needed"
// exactly when the reference says the text is an unfinished prefix.
func vh_C13_moreinput() {
	vFormatOpaque(true)
	env := vEnvs(1)[0]
	max := 4
	if vTier() == 1 {
		max = 5
	}
	n := 1 + vChoice("len", max)
	b := make([]byte, n)
	for i := range b {
		b[i] = vC13Alphabet[vChoice("c", len(vC13Alphabet))]
	}
	txt := string(b)
	_, err, p := vParse(env, txt)
	if p {
		vDone() // C01
	}
	switch vC13Classify(txt) {
	case vC13Complete:
		vAssert(err != ErrMoreInputNeeded, "complete-text-does-not-ask-for-more-input")
		vReach("complete")
	case vC13Unfinished:
		vAssert(err == ErrMoreInputNeeded, "unfinished-prefix-asks-for-more-input")
		vReach("unfinished")
	default:
		vReach("mismatch")
	}
}

// vh_C13_repl: the REPL's continuation loop (getExpressionWithLiner with
// the line reader) hands a multi-line text to the parser one line at a time,
// the parser pausing in between; what it reads equals the parse of the same
// text given whole - whatever the continuation lines look like (empty,
// blanks only, a comment, ordinary text) and wherever the text is open when
// the line ends (list, array, raw string, string, block comment, infix).
var vC13ReplShapes = []string{
	"(def s `alpha\nM\nomega`)\n",
	"(def s \"alpha\nM\nomega\")\n",
	"[1 2 /* one\nM\n two */ 3]\n",
	"(+ 1\nM\n 2)\n",
	"[1\nM\n2]\n",
	"{a = 1 +\nM\n 2}\n",
	"(list `a\nM\n` \"b\nM\nc\")\n",
	"(def h (hash a: 1\nM\n b: 2))\n",
}

var vC13ReplMiddles = []string{"", " ", "\t ", "x", "  x ", "// c", "7", ";"}

func vh_C13_repl() {
	vFormatOpaque(true)
	k := vChoice("shape", len(vC13ReplShapes))
	m := vChoice("middle", len(vC13ReplMiddles))
	text := vReplace(vC13ReplShapes[k], "M", vC13ReplMiddles[m])
	wenv := vEnvs(2)[0]
	wenv.parser.ResetAddNewInput(bytes.NewBuffer([]byte(text)))
	whole, werr := wenv.parser.ParseTokens()
	env := vEnvs(2)[1]
	pr := &Prompter{prompt: ""}
	reader := bufio.NewReader(strings.NewReader(text))
	var all []Sexp
	var rerr error
	for i := 0; i < 6 && len(all) < len(whole); i++ {
		var xs []Sexp
		_, xs, rerr = pr.getExpressionWithLiner(env, reader, true)
		if rerr != nil {
			break
		}
		all = append(all, xs...)
	}
	if werr != nil {
		// a text that does not parse whole does not parse line by line either
		vAssert(rerr != nil, "line-by-line-fails-when-the-whole-text-fails")
		vReach("repl")
		return
	}
	vAssert(rerr == nil, "line-by-line-parses-when-the-whole-text-parses")
	if rerr != nil {
		return
	}
	vAssert(len(all) == len(whole), "line-by-line-reads-as-many-expressions")
	if len(all) == len(whole) {
		for i := range all {
			vAssert(vSexpEq(all[i], whole[i]), "line-by-line-reads-the-same-expressions")
		}
	}
	vReach("repl")
}

// vh_C13_threepieces: a text delivered in three pieces (two cuts at any
// positions), the parser pausing after each of the first two, reads as the
// whole text does.  Over the feature texts of the chunk harness and forms
// that stay open across both cuts.
var vC13ThreeTexts = []string{
	`(foo bar baz)`, `(a %b c)`, `(a b) -`, `[1 [2 3] 4]`, `(a (b c) d)`, `{x = 1 + 2}`, `(f "s t" 'c')`, "(g `r w` 1)",
	`(a \ b)`, `(h -Inf 2)`, `(k {p: 1})`, `(a ~@b ^c)`, `(m 1e-3 -4)`, `(n /*c*/ 5)`, `(o #p q)`, `(def v [1 2])  v`,
}

func vh_C13_threepieces() {
	vFormatOpaque(true)
	es := vEnvs(2)
	whole, pieces := es[0], es[1]
	txt := vC13ThreeTexts[vChoice("text", len(vC13ThreeTexts))]
	n := len(txt)
	c1 := 1 + vChoice("cut1", n-2)
	c2 := c1 + 1 + vChoice("cut2", n-1-c1)
	a, errA, pA := vParse(whole, txt)
	if pA {
		vDone()
	}
	b, errB, pB := vParse(pieces, txt[:c1])
	if pB {
		vDone()
	}
	if errB != ErrMoreInputNeeded {
		vDone() // the parser did not pause: the rest would be a new text
	}
	feed := func(piece string) {
		defer func() {
			if r := recover(); r != nil {
				switch r.(type) {
				case vAssumeFailed, vDoneSignal:
					panic(r)
				}
				pB = true
			}
		}()
		pieces.parser.NewInput(bytes.NewBuffer([]byte(piece)))
		b, errB = pieces.parser.ParseTokens()
	}
	feed(txt[c1:c2])
	vAssert(!pB, "resume-does-not-panic")
	if pB {
		return
	}
	if errB != ErrMoreInputNeeded {
		vDone() // complete (or failed) after two pieces: covered by the chunk harness
	}
	vReach("paused-twice")
	feed(txt[c2:])
	vAssert(!pB, "resume-does-not-panic")
	if pB {
		return
	}
	vAssert(vErrKind(errA) == vErrKind(errB), "three-pieces-same-error-kind")
	if errA == nil && errB == nil {
		vAssert(vSexpListEq(a, b), "three-pieces-same-expressions")
	}
	vReach("threepieces")
}
