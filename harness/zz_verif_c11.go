//go:build verif

package zygo

import "strconv"

// C11 — JSON encodings are well-formed and denote the same data (encoder
// leg).  The text produced by the real SexpToJson is read by a small
// RFC 8259 reader in the harness (the codec behind unjson is reflection
// code and not encodable); the value read must equal the original.

type vjKind int

const (
	vjNull vjKind = iota
	vjBool
	vjNum
	vjStr
	vjArr
	vjObj
)

type vjVal struct {
	k     vjKind
	b     bool
	num   string
	s     string
	elems []vjVal
	keys  []string
}

type vjReader struct {
	s   string
	pos int
	bad bool
}

func (r *vjReader) ws() {
	for r.pos < len(r.s) {
		c := r.s[r.pos]
		if c == ' ' || c == '\t' || c == '\n' || c == '\r' {
			r.pos++
		} else {
			return
		}
	}
}

func (r *vjReader) fail() vjVal { r.bad = true; return vjVal{} }

func (r *vjReader) lit(w string) bool {
	if r.pos+len(w) <= len(r.s) && r.s[r.pos:r.pos+len(w)] == w {
		r.pos += len(w)
		return true
	}
	return false
}

func (r *vjReader) value(depth int) vjVal {
	r.ws()
	if r.pos >= len(r.s) || depth > 6 {
		return r.fail()
	}
	c := r.s[r.pos]
	switch {
	case c == '{':
		r.pos++
		out := vjVal{k: vjObj}
		r.ws()
		if r.pos < len(r.s) && r.s[r.pos] == '}' {
			r.pos++
			return out
		}
		for {
			r.ws()
			if r.pos >= len(r.s) || r.s[r.pos] != '"' {
				return r.fail()
			}
			k := r.str()
			if r.bad {
				return vjVal{}
			}
			r.ws()
			if r.pos >= len(r.s) || r.s[r.pos] != ':' {
				return r.fail()
			}
			r.pos++
			v := r.value(depth + 1)
			if r.bad {
				return vjVal{}
			}
			out.keys = append(out.keys, k)
			out.elems = append(out.elems, v)
			r.ws()
			if r.pos < len(r.s) && r.s[r.pos] == ',' {
				r.pos++
				continue
			}
			if r.pos < len(r.s) && r.s[r.pos] == '}' {
				r.pos++
				return out
			}
			return r.fail()
		}
	case c == '[':
		r.pos++
		out := vjVal{k: vjArr}
		r.ws()
		if r.pos < len(r.s) && r.s[r.pos] == ']' {
			r.pos++
			return out
		}
		for {
			v := r.value(depth + 1)
			if r.bad {
				return vjVal{}
			}
			out.elems = append(out.elems, v)
			r.ws()
			if r.pos < len(r.s) && r.s[r.pos] == ',' {
				r.pos++
				continue
			}
			if r.pos < len(r.s) && r.s[r.pos] == ']' {
				r.pos++
				return out
			}
			return r.fail()
		}
	case c == '"':
		s := r.str()
		return vjVal{k: vjStr, s: s}
	case c == 't':
		if r.lit("true") {
			return vjVal{k: vjBool, b: true}
		}
		return r.fail()
	case c == 'f':
		if r.lit("false") {
			return vjVal{k: vjBool, b: false}
		}
		return r.fail()
	case c == 'n':
		if r.lit("null") {
			return vjVal{k: vjNull}
		}
		return r.fail()
	case c == '-' || (c >= '0' && c <= '9'):
		start := r.pos
		if c == '-' {
			r.pos++
		}
		if r.pos >= len(r.s) || r.s[r.pos] < '0' || r.s[r.pos] > '9' {
			return r.fail()
		}
		if r.s[r.pos] == '0' {
			r.pos++
		} else {
			for r.pos < len(r.s) && r.s[r.pos] >= '0' && r.s[r.pos] <= '9' {
				r.pos++
			}
		}
		if r.pos < len(r.s) && r.s[r.pos] == '.' {
			r.pos++
			if r.pos >= len(r.s) || r.s[r.pos] < '0' || r.s[r.pos] > '9' {
				return r.fail()
			}
			for r.pos < len(r.s) && r.s[r.pos] >= '0' && r.s[r.pos] <= '9' {
				r.pos++
			}
		}
		if r.pos < len(r.s) && (r.s[r.pos] == 'e' || r.s[r.pos] == 'E') {
			r.pos++
			if r.pos < len(r.s) && (r.s[r.pos] == '+' || r.s[r.pos] == '-') {
				r.pos++
			}
			if r.pos >= len(r.s) || r.s[r.pos] < '0' || r.s[r.pos] > '9' {
				return r.fail()
			}
			for r.pos < len(r.s) && r.s[r.pos] >= '0' && r.s[r.pos] <= '9' {
				r.pos++
			}
		}
		return vjVal{k: vjNum, num: r.s[start:r.pos]}
	}
	return r.fail()
}

func vjHex(c byte) (int, bool) {
	switch {
	case c >= '0' && c <= '9':
		return int(c - '0'), true
	case c >= 'a' && c <= 'f':
		return int(c-'a') + 10, true
	case c >= 'A' && c <= 'F':
		return int(c-'A') + 10, true
	}
	return 0, false
}

// str reads a JSON string starting at the opening quote.
func (r *vjReader) str() string {
	r.pos++
	out := []byte{}
	for {
		if r.pos >= len(r.s) {
			r.bad = true
			return ""
		}
		c := r.s[r.pos]
		switch {
		case c == '"':
			r.pos++
			return string(out)
		case c < 0x20:
			r.bad = true // raw control characters are not allowed
			return ""
		case c == '\\':
			if r.pos+1 >= len(r.s) {
				r.bad = true
				return ""
			}
			e := r.s[r.pos+1]
			r.pos += 2
			switch e {
			case '"', '\\', '/':
				out = append(out, e)
			case 'b':
				out = append(out, '\b')
			case 'f':
				out = append(out, '\f')
			case 'n':
				out = append(out, '\n')
			case 'r':
				out = append(out, '\r')
			case 't':
				out = append(out, '\t')
			case 'u':
				if r.pos+4 > len(r.s) {
					r.bad = true
					return ""
				}
				v := 0
				for k := 0; k < 4; k++ {
					h, ok := vjHex(r.s[r.pos+k])
					if !ok {
						r.bad = true
						return ""
					}
					v = v<<4 | h
				}
				r.pos += 4
				out = append(out, []byte(string(rune(v)))...)
			default:
				r.bad = true
				return ""
			}
		default:
			out = append(out, c)
			r.pos++
		}
	}
}

func vjParse(s string) (vjVal, bool) {
	r := &vjReader{s: s}
	v := r.value(0)
	r.ws()
	if r.bad || r.pos != len(s) {
		return vjVal{}, false
	}
	return v, true
}

// vjDenotes: does the JSON value denote the original data?
func vjDenotes(j vjVal, x Sexp) bool {
	switch t := x.(type) {
	case *SexpStr:
		return j.k == vjStr && j.s == t.S
	case *SexpInt:
		return j.k == vjNum && j.num == vItoa(t.Val)
	case *SexpBool:
		return j.k == vjBool && j.b == t.Val
	case *SexpSentinel:
		return j.k == vjNull
	case *SexpArray:
		if j.k != vjArr || len(j.elems) != len(t.Val) {
			return false
		}
		for i := range t.Val {
			if !vjDenotes(j.elems[i], t.Val[i]) {
				return false
			}
		}
		return true
	case *SexpHash:
		if j.k != vjObj {
			return false
		}
		// "Atype", the fields in order, then "zKeyOrder"
		n := len(t.KeyOrder)
		want := n + 1
		if n > 0 {
			want = n + 2
		}
		if len(j.keys) != want || j.keys[0] != "Atype" || j.elems[0].k != vjStr || j.elems[0].s != t.TypeName {
			return false
		}
		for i, key := range t.KeyOrder {
			var name string
			switch k := key.(type) {
			case *SexpSymbol:
				name = k.name
			case *SexpStr:
				name = k.S
			default:
				return false
			}
			if j.keys[i+1] != name {
				return false
			}
			val, err := t.HashGet(nil, key)
			if err != nil || !vjDenotes(j.elems[i+1], val) {
				return false
			}
		}
		if n > 0 {
			ko := j.elems[n+1]
			if j.keys[n+1] != "zKeyOrder" || ko.k != vjArr || len(ko.elems) != n {
				return false
			}
			for i := range t.KeyOrder {
				if ko.elems[i].k != vjStr || ko.elems[i].s != j.keys[i+1] {
					return false
				}
			}
		}
		return true
	}
	return false
}

func vItoa(v int64) string {
	if v == 0 {
		return "0"
	}
	neg := v < 0
	u := uint64(v)
	if neg {
		u = uint64(-v)
	}
	var b []byte
	for u > 0 {
		b = append([]byte{byte('0' + u%10)}, b...)
		u /= 10
	}
	if neg {
		return "-" + string(b)
	}
	return string(b)
}

func vC11Str(tag string) *SexpStr {
	r := rune(vInt32(tag))
	vAssume(vValidRune(r))
	// the whole of Unicode: jsonQuote and the reference reader distinguish
	// only a handful of rune classes (control, quote/backslash, DEL.., BMP,
	// supplementary planes), so the full range costs a few paths
	return &SexpStr{S: "a" + string(r) + "z"}
}

// vC11StrBounded: as vC11Str with the rune below U+0250 (quick) / U+3000
// (thorough): the round-trip harness sorts and compares the strings, which
// multiplies the rune classes.
func vC11StrBounded(tag string) *SexpStr {
	r := rune(vInt32(tag))
	vAssume(vValidRune(r))
	if vTier() == 0 {
		vAssume(r < 0x250)
	} else {
		vAssume(r < 0x3000)
	}
	return &SexpStr{S: "a" + string(r) + "z"}
}

// vh_C11_encode: the JSON text of scalars, arrays and hashes (symbol keys
// and string keys) is well-formed and denotes the same data.
func vh_C11_encode() {
	env := vEnvs(1)[0]
	var v Sexp
	switch vChoice("shape", 15) {
	// the string with the symbolic rune at every position of an array and of a hash, and below a nested container
	case 9:
		v = &SexpArray{Val: []Sexp{&SexpInt{Val: 7}, vC11Str("r"), SexpNull}, Env: env}
	case 10:
		v = &SexpArray{Val: []Sexp{SexpNull, &SexpStr{S: "p"}, vC11Str("r")}, Env: env}
	case 11:
		v = &SexpArray{Val: []Sexp{&SexpArray{Val: []Sexp{&SexpInt{Val: 1}, vC11Str("r")}, Env: env}, &SexpArray{Val: []Sexp{vC11Str("r")}, Env: env}}, Env: env}
	case 12:
		h, _ := MakeHash([]Sexp{env.MakeSymbol("a"), &SexpInt{Val: 3}, env.MakeSymbol("b"), vC11Str("r")}, "hash", env)
		v = h
	case 13:
		h, _ := MakeHash([]Sexp{env.MakeSymbol("a"), &SexpArray{Val: []Sexp{&SexpInt{Val: 1}, vC11Str("r")}, Env: env}}, "hash", env)
		v = h
	case 14:
		inner, _ := MakeHash([]Sexp{env.MakeSymbol("x"), &SexpInt{Val: 1}, env.MakeSymbol("y"), vC11Str("r")}, "hash", env)
		v = &SexpArray{Val: []Sexp{&SexpInt{Val: 0}, inner}, Env: env}
	case 0:
		v = vC11Str("r")
	case 1:
		i := vInt64("i")
		vAssume(i > -100000 && i < 100000)
		v = &SexpInt{Val: i}
	case 2:
		v = &SexpBool{Val: vBool("b")}
	case 3:
		v = SexpNull
	case 4:
		v = &SexpArray{Val: []Sexp{vC11Str("r"), &SexpInt{Val: 7}, SexpNull}, Env: env}
	case 5:
		h, _ := MakeHash([]Sexp{env.MakeSymbol("a"), vC11Str("r"), env.MakeSymbol("b"), &SexpInt{Val: 3}}, "hash", env)
		v = h
	case 6:
		h, _ := MakeHash([]Sexp{&SexpStr{S: "key"}, &SexpInt{Val: 1}}, "hash", env)
		v = h
	case 7:
		inner, _ := MakeHash([]Sexp{env.MakeSymbol("x"), &SexpBool{Val: true}}, "hash", env)
		h, _ := MakeHash([]Sexp{env.MakeSymbol("in"), inner, env.MakeSymbol("arr"), &SexpArray{Val: []Sexp{}, Env: env}}, "hash", env)
		v = h
	default:
		h, _ := MakeHash([]Sexp{vC11Str("k"), &SexpInt{Val: 1}}, "hash", env)
		v = h
	}
	txt := SexpToJson(v)
	j, ok := vjParse(txt)
	vAssert(ok, "json-is-well-formed")
	if !ok {
		return
	}
	vAssert(vjDenotes(j, v), "json-denotes-the-same-data")
	vReach("encode")
}

// ---- decode leg: JSON text -> (reference reader) -> Go values -> the real
// decodeGoToSexpHelper / key-order restoration ----

func vjToGo(j vjVal) interface{} {
	switch j.k {
	case vjNull:
		return nil
	case vjBool:
		return j.b
	case vjStr:
		return j.s
	case vjNum:
		var n int64
		neg := false
		for i := 0; i < len(j.num); i++ {
			c := j.num[i]
			if c == '-' {
				neg = true
				continue
			}
			n = n*10 + int64(c-'0')
		}
		if neg {
			n = -n
		}
		return n
	case vjArr:
		out := make([]interface{}, len(j.elems))
		for i := range j.elems {
			out[i] = vjToGo(j.elems[i])
		}
		return out
	default:
		m := map[string]interface{}{}
		for i, k := range j.keys {
			m[k] = vjToGo(j.elems[i])
		}
		return m
	}
}

func vC11KeyName(k Sexp) string {
	switch t := k.(type) {
	case *SexpSymbol:
		return t.name
	case *SexpStr:
		return t.S
	}
	return "?"
}

// vC11Same: decoded value equals the original (record type names, field
// order, values; numbers by value).
func vC11Same(a, b Sexp) bool {
	switch x := a.(type) {
	case *SexpHash:
		y, ok := b.(*SexpHash)
		if !ok || x.TypeName != y.TypeName || len(x.KeyOrder) != len(y.KeyOrder) {
			return false
		}
		for i := range x.KeyOrder {
			if vC11KeyName(x.KeyOrder[i]) != vC11KeyName(y.KeyOrder[i]) {
				return false
			}
			va, ea := x.HashGet(nil, x.KeyOrder[i])
			vb, eb := y.HashGet(nil, y.KeyOrder[i])
			if ea != nil || eb != nil || !vC11Same(va, vb) {
				return false
			}
		}
		return true
	case *SexpArray:
		y, ok := b.(*SexpArray)
		if !ok || len(x.Val) != len(y.Val) {
			return false
		}
		for i := range x.Val {
			if !vC11Same(x.Val[i], y.Val[i]) {
				return false
			}
		}
		return true
	}
	return vSexpEq(a, b)
}

// vh_C11_roundtrip: encode, read with the reference reader, decode with the
// real decoder half, compare with the original - including field names that
// sort before and after the key-order member.
func vh_C11_roundtrip() {
	env := vEnvs(1)[0]
	sym := func(n string) Sexp { return env.MakeSymbol(n) }
	names := [][]string{{"b", "a"}, {"zone", "name", "active"}, {"zz", "a"}, {"~k", "zKey", "m"}, {"x"}}[vChoice("names", 5)]
	var kv []Sexp
	for i, n := range names {
		kv = append(kv, sym(n))
		if i == 0 {
			kv = append(kv, vC11StrBounded("r"))
		} else {
			kv = append(kv, &SexpInt{Val: int64(i)})
		}
	}
	h, err := MakeHash(kv, "hash", env)
	if err != nil {
		vAssert(false, "roundtrip-setup")
		return
	}
	var v Sexp = h
	switch vChoice("wrap", 3) {
	case 1:
		outer, _ := MakeHash([]Sexp{sym("zouter"), h, sym("first"), &SexpInt{Val: 9}}, "hash", env)
		v = outer
	case 2:
		v = &SexpArray{Val: []Sexp{h, &SexpInt{Val: 1}}, Env: env}
	}
	j, ok := vjParse(SexpToJson(v))
	vAssert(ok, "roundtrip-json-is-well-formed")
	if !ok {
		return
	}
	back := decodeGoToSexpHelper(vjToGo(j), 0, env, false)
	vAssert(vC11Same(v, back), "roundtrip-decodes-to-an-equal-value")
	vReach("roundtrip")
}

// vh_C11_history: encoding is a function of the current value: a value is
// encoded, then a container nested inside it is changed in place (a field
// set or deleted in a nested hash, an element replaced in a nested array, at
// depth 1 or 2), and it is encoded again - the second text denotes the
// current data, for json and for the msgpack route.
func vh_C11_history() {
	env := vEnvs(1)[0]
	sym := func(n string) Sexp { return env.MakeSymbol(n) }
	i := vInt64("i")
	vAssume(i > -1000 && i < 1000)
	num := &SexpInt{Val: i}
	innermost, _ := MakeHash([]Sexp{sym("p"), &SexpInt{Val: 1}}, "hash", env)
	inner, _ := MakeHash([]Sexp{sym("a"), &SexpInt{Val: 1}, sym("deep"), innermost}, "hash", env)
	arr := &SexpArray{Val: []Sexp{&SexpInt{Val: 1}, &SexpInt{Val: 2}}, Env: env}
	outer, _ := MakeHash([]Sexp{sym("in"), inner, sym("arr"), arr, sym("k"), &SexpInt{Val: 5}}, "hash", env)
	var root Sexp = outer
	if vChoice("root", 2) == 1 {
		root = &SexpArray{Val: []Sexp{outer, &SexpInt{Val: 0}}, Env: env}
	}
	msgp := vChoice("codec", 2) == 1
	encode := func() (Sexp, bool) {
		if !msgp {
			j, ok := vjParse(SexpToJson(root))
			if !ok {
				return nil, false
			}
			return decodeGoToSexpHelper(vjToGo(j), 0, env, false), true
		}
		by, _ := SexpToMsgpack(root)
		back, err := MsgpackToSexp(by, env)
		return back, err == nil
	}
	first, ok := encode()
	vAssert(ok && vC11Same(root, first), "first-encoding-roundtrips")
	switch vChoice("change", 6) {
	case 0:
		inner.HashSet(sym("b"), num)
	case 1:
		inner.HashSet(sym("a"), num)
	case 2:
		inner.HashDelete(sym("a"))
	case 3:
		arr.Val[1] = num
	case 4:
		innermost.HashSet(sym("p"), num)
	default:
		arr.Val = append(arr.Val, num)
	}
	second, ok2 := encode()
	vAssert(ok2, "second-encoding-is-well-formed")
	if ok2 {
		vAssert(vC11Same(root, second), "second-encoding-denotes-the-current-data")
	}
	vReach("history")
}

// vh_C11_floats: the JSON text of a float denotes the same float64, bare and
// inside arrays and hashes, also after the msgpack route.  Float formatting
// and parsing are strconv code the engine cannot encode: the grid of C12's
// float harness is enumerated (no solver verdict for this part).
func vh_C11_floats() {
	env := vStdEnvs(1)[0]
	var v float64
	k := vChoice("float", len(vC12FloatBits)+len(vC12FloatExprs))
	if k < len(vC12FloatBits) {
		v = vFloatFromBits(vC12FloatBits[k])
	} else {
		res, err, p := vEvalString(env, vC12FloatExprs[k-len(vC12FloatBits)])
		f, isF := res.(*SexpFloat)
		if p || err != nil || !isF {
			vAssert(false, "float-expression-evaluates")
			return
		}
		v = f.Val
	}
	if v != v || v-v != 0 {
		vDone() // NaN and the infinities have no JSON spelling
	}
	fl := &SexpFloat{Val: v}
	var val Sexp = fl
	switch vChoice("where", 3) {
	case 1:
		val = &SexpArray{Val: []Sexp{&SexpInt{Val: 1}, fl}, Env: env}
	case 2:
		h, _ := MakeHash([]Sexp{env.MakeSymbol("f"), fl, env.MakeSymbol("n"), &SexpInt{Val: 2}}, "hash", env)
		val = h
	}
	txt := SexpToJson(val)
	j, ok := vjParse(txt)
	vAssert(ok, "float-json-is-well-formed")
	if !ok {
		return
	}
	num := j
	switch val.(type) {
	case *SexpArray:
		if j.k != vjArr || len(j.elems) != 2 {
			vAssert(false, "float-json-shape")
			return
		}
		num = j.elems[1]
	case *SexpHash:
		found := false
		for i, key := range j.keys {
			if key == "f" {
				num, found = j.elems[i], true
			}
		}
		if !found {
			vAssert(false, "float-json-shape")
			return
		}
	}
	vAssert(num.k == vjNum, "float-json-is-a-number")
	if num.k == vjNum {
		got, perr := vParseFloat(num.num)
		vAssert(perr == nil && got == v, "float-json-denotes-the-same-float")
	}
	vReach("floats")
}

func vParseFloat(t string) (float64, error) { return strconv.ParseFloat(t, 64) }
