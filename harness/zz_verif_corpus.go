//go:build verif

package zygo

// The repository's own scripts (tests/*.zy of the tree being checked) as a
// corpus.  ./check generates zz_verif_corpusdata.go with their texts
// (vCorpus) on every run.  Each script is parsed by the real reader and
// evaluated form by form in a sandbox with the standard setup; forms that
// need what a sandbox does not have simply fail and the script goes on.
// There is no symbolic data here: the engine's contribution is what it
// intercepts - escaping panics, the four stacks after every form, every order
// of every small Go map, the values produced along the way.

import "bytes"

// vCorpusForms parses script k with env's own reader (symbols are interned
// per interpreter family: forms must be read by the interpreter that runs them).
func vCorpusForms(env *Zlisp, k int) (forms []Sexp, ok bool) {
	env.parser.ResetAddNewInput(bytes.NewBuffer([]byte(vCorpus[k].text + "\n")))
	xs, err := env.parser.ParseTokens()
	if err != nil {
		return nil, false
	}
	for _, x := range xs {
		if _, isComment := x.(*SexpComment); !isComment {
			forms = append(forms, x)
		}
	}
	return forms, true
}

func vCorpusPick() (name string, forms []Sexp, env *Zlisp, k int) {
	env = vStdEnvs(1)[0]
	k = vChoice("script", len(vCorpus))
	name = vCorpus[k].name
	var ok bool
	forms, ok = vCorpusForms(env, k)
	if !ok {
		vDone() // a script the reader rejects is not part of the corpus
	}
	return
}

// vh_C01_corpus: no form of any script, and no script text as a whole, lets a
// Go panic escape.
func vh_C01_corpus() {
	vFormatOpaque(true)
	vBudgetOK()
	_, forms, env, k := vCorpusPick()
	for _, f := range forms {
		_, _, p := vEval(env, f)
		vAssert(!p, "no-panic-escapes-corpus-form")
		if p {
			return
		}
	}
	_, _, p := vEvalString(vStdEnvPool[1], vCorpus[k].text)
	vAssert(!p, "no-panic-escapes-corpus-text")
	vReach("corpus")
}

// vh_C04_corpus: after every form of every script that returns a value the
// interpreter is at rest; after a form that fails as well (C05), and the
// next form starts from a clean interpreter.
func vh_C04_corpus() {
	vFormatOpaque(true)
	vBudgetOK()
	_, forms, env, _ := vCorpusPick()
	ok := 0
	for _, f := range forms {
		_, err, p := vEval(env, f)
		if p {
			vDone()
		}
		if err == nil {
			ok++
			vC04AtRest(env, "corpus")
		} else {
			vC04AtRest(env, "corpus-after-failed-form")
		}
	}
	res, err, p := vEvalString(env, "")
	vAssert(!p && err == nil && res == SexpNull, "corpus-empty-input-is-nil")
	if ok > 0 {
		vReach("corpus")
	}
}

// vh_C20_corpus: every script prints the same values and reports the same
// errors (a) in a second fresh interpreter of the same process as in the
// first, and (b) under every iteration order of the Go maps it walks (maps of
// up to 3 entries permuted, larger ones walked forwards and backwards).
// The assertion labels carry the script's name, so that a recorded finding
// about one script does not hide another script.
func vh_C20_corpus() {
	vFormatOpaque(true)
	vBudgetOK()
	name, formsA, env, k := vCorpusPick()
	twin := vStdEnvPool[1]
	formsB, okB := vCorpusForms(twin, k)
	if !okB {
		vDone()
	}
	run := func(e *Zlisp, forms []Sexp) []string {
		var out []string
		for _, f := range forms {
			r, err, p := vEval(e, f)
			switch {
			case p:
				out = append(out, "panic")
			case err != nil:
				out = append(out, "err:"+vMaskPointers(err.Error()))
			default:
				out = append(out, vMaskPointers(r.SexpString(nil)))
			}
		}
		return out
	}
	same := func(a, b []string) bool {
		if len(a) != len(b) {
			return false
		}
		for i := range a {
			if a[i] != b[i] && !vCorpusVolatile(a[i]) {
				return false
			}
		}
		return true
	}
	vMapOrder(false, 0)
	a := run(env, formsA)
	if vChoice("mode", 2) == 0 {
		b := run(twin, formsB)
		vAssert(same(a, b), "corpus-same-in-a-second-interpreter:"+name)
	} else {
		vMapOrder(true, 3)
		b := run(twin, formsB)
		vMapOrder(false, 0)
		if !same(a, b) {
			// told apart from (a): the same second interpreter without reordering
			vAssert(false, "corpus-independent-of-map-order:"+name)
		}
	}
	vReach("corpus")
}

// results that legitimately differ between two interpreters (generated
// symbol names, goroutine stack traces in messages)
func vCorpusVolatile(s string) bool {
	for _, w := range []string{"__gensym", "goroutine", "__anon", "stack trace"} {
		if bytes.Contains([]byte(s), []byte(w)) {
			return true
		}
	}
	return false
}

// vCorpusIsData: values built from integers, booleans, nil, characters,
// strings, symbols, lists and arrays (the part of C12's statement that needs
// no float formatting; floats compare by value)
func vCorpusIsData(x Sexp, depth int) bool {
	if depth > 6 {
		return false
	}
	switch t := x.(type) {
	case *SexpInt, *SexpBool, *SexpChar, *SexpUint64, *SexpFloat:
		return true
	case *SexpStr:
		return !t.backtick
	case *SexpSymbol:
		return !t.isDot && !t.colonTail && len(t.name) > 0 && t.name != "nil"
	case *SexpPair:
		return vCorpusIsData(t.Head, depth+1) && (t.Tail == SexpNull || vCorpusIsData(t.Tail, depth+1))
	case *SexpArray:
		for _, e := range t.Val {
			if !vCorpusIsData(e, depth+1) {
				return false
			}
		}
		return true
	}
	return false
}

// vh_C12_corpus: every data value a script produces along the way prints to
// text the reader accepts and that denotes the same value.
func vh_C12_corpus() {
	vFormatOpaque(true)
	vBudgetOK()
	_, forms, env, _ := vCorpusPick()
	reader := vEnvs(1)[0]
	n := 0
	for _, f := range forms {
		r, err, p := vEval(env, f)
		if p {
			vDone()
		}
		if err != nil || r == SexpNull || !vCorpusIsData(r, 0) {
			continue
		}
		if _, isSym := r.(*SexpSymbol); isSym {
			continue // a bare symbol reads back as itself only in a quoted context
		}
		txt := r.SexpString(nil)
		back, ok := vReadOne(reader, txt)
		vAssert(ok, "corpus-value-print-is-readable")
		if ok {
			vAssert(vSexpEq(r, back) || vCorpusNumEq(r, back), "corpus-value-reads-back")
		}
		n++
	}
	if n > 0 {
		vReach("corpus")
	}
}

// a whole-valued float prints without a fraction and reads as the integer of
// the same value: numbers compare by value
func vCorpusNumEq(a, b Sexp) bool {
	fa, okA := vAsFloat(a)
	fb, okB := vAsFloat(b)
	if okA && okB {
		return fa == fb
	}
	pa, isPA := a.(*SexpPair)
	pb, isPB := b.(*SexpPair)
	if isPA && isPB {
		return (vSexpEq(pa.Head, pb.Head) || vCorpusNumEq(pa.Head, pb.Head)) && (vSexpEq(pa.Tail, pb.Tail) || vCorpusNumEq(pa.Tail, pb.Tail))
	}
	aa, isAA := a.(*SexpArray)
	ab, isAB := b.(*SexpArray)
	if isAA && isAB && len(aa.Val) == len(ab.Val) {
		for i := range aa.Val {
			if !vSexpEq(aa.Val[i], ab.Val[i]) && !vCorpusNumEq(aa.Val[i], ab.Val[i]) {
				return false
			}
		}
		return true
	}
	return false
}
