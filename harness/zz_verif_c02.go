//go:build verif

package zygo

// C02 — evaluation matches the reference semantics: values, control flow,
// effect order.  Programs from a bounded grammar (shape case-split, operands
// symbolic) run through Generator+VM and through the reference evaluator.

type vGen struct {
	env   *Zlisp
	nints int
	deep  bool // generating below a depth-2 root: no products there (a product under a comparison is a 64-bit symbolic multiplication the solver does not decide in time)
}

func (g *vGen) atom() Sexp {
	switch vChoice("atom", 3) {
	case 0:
		return vSmallInt("i")
	case 1:
		return vS(g.env, "a") // global, symbolic int
	default:
		return vS(g.env, "x") // bound by let/fn in some contexts, unbound (error) in others
	}
}

var vArithOps = []string{"+", "-", "*"}
var vCmpOps = []string{"<", "==", "<="}

// expr generates an expression of nesting depth <= d.  At depth 2 (thorough
// tier) one operand of the outer form - every choice of which - is a depth-1
// expression and the others are atoms: all operands deep at once would exceed
// the path cap (about 10^5 shapes times their control paths).
func (g *vGen) expr(d int) Sexp {
	if d <= 0 {
		return g.atom()
	}
	e := g.env
	if d >= 2 {
		g.deep = true
	}
	form := vChoice("form", 11)
	nops := []int{0, 2, 2, 3, 2, 2, 2, 2, 1, 2, 1}[form]
	which := 0
	if d >= 2 && nops > 1 {
		which = vChoice("deep", nops)
	}
	k := 0
	sub := func() Sexp {
		dd := d - 1
		if d >= 2 && k != which {
			dd = 0
		}
		k++
		return g.expr(dd)
	}
	switch form {
	case 0:
		return g.atom()
	case 1:
		nar := 3
		if g.deep {
			nar = 2
		}
		return vL(vS(e, vArithOps[vChoice("aop", nar)]), sub(), sub())
	case 2:
		return vL(vS(e, vCmpOps[vChoice("cop", 3)]), sub(), sub())
	case 3:
		return vL(vS(e, "cond"), sub(), sub(), sub())
	case 4:
		return vL(vS(e, "and"), sub(), sub())
	case 5:
		return vL(vS(e, "or"), sub(), sub())
	case 6:
		return vL(vS(e, "begin"), vL(vS(e, "t"), sub()), sub())
	case 7:
		return vL(vS(e, "let"), vA(e, vS(e, "x"), sub()), sub())
	case 8:
		return vL(vS(e, "set"), vS(e, "a"), sub())
	case 9:
		return vL(vL(vS(e, "fn"), vA(e, vS(e, "x")), sub()), sub())
	default:
		return vL(vS(e, "t"), sub())
	}
}

func vC02Prelude(env *Zlisp) []Sexp {
	return []Sexp{vL(vS(env, "def"), vS(env, "a"), vSmallInt("a"))}
}

// vh_C02_expr: one expression of depth <= 2 (thorough: the first operand
// slot one level deeper).
func vProg_expr(env *Zlisp) []Sexp {
	g := &vGen{env: env}
	forms := vC02Prelude(env)
	d := 1
	if vTier() == 1 {
		d = 2
	}
	// (begin EXPR (t a)): the trailing trace exposes a wrong set/def
	forms = append(forms, g.expr(d), vL(vS(env, "t"), vS(env, "a")))
	return forms
}

func vh_C02_expr() {
	vFormatOpaque(true)
	env := vEvalEnv(0)
	vDiff(env, vProg_expr(env), "expr")
	vReach("expr")
}

// vh_C02_nested: a depth-1 expression in every operand position of every
// form (sub-generator sizes differ per position: branch/jump lengths).
func vProg_nested(env *Zlisp) []Sexp {
	g := &vGen{env: env}
	e := env
	forms := vC02Prelude(env)
	inner := func() Sexp { return g.expr(1) }
	at := func() Sexp { return vSmallInt("k") }
	var f Sexp
	switch vChoice("outer", 12) {
	case 0:
		f = vL(vS(e, "cond"), inner(), at(), at())
	case 1:
		f = vL(vS(e, "cond"), at(), inner(), at())
	case 2:
		f = vL(vS(e, "cond"), at(), at(), inner())
	case 3:
		f = vL(vS(e, "cond"), at(), at(), at(), inner(), at())
	case 4:
		f = vL(vS(e, "and"), inner(), at(), at())
	case 5:
		f = vL(vS(e, "and"), at(), inner(), at())
	case 6:
		f = vL(vS(e, "or"), at(), at(), inner())
	case 7:
		f = vL(vS(e, "or"), inner(), at())
	case 8:
		f = vL(vS(e, "begin"), inner(), vL(vS(e, "t"), at()), inner())
	case 9:
		f = vL(vS(e, "let"), vA(e, vS(e, "x"), inner(), vS(e, "y"), at()), vL(vS(e, "t"), vS(e, "x")), vS(e, "y"))
	case 10:
		f = vL(vS(e, "letseq"), vA(e, vS(e, "x"), at(), vS(e, "y"), inner()), vL(vS(e, "+"), vS(e, "x"), vS(e, "y")))
	default:
		f = vL(vS(e, "newScope"), vL(vS(e, "def"), vS(e, "x"), inner()), vL(vS(e, "t"), vS(e, "x")))
	}
	forms = append(forms, f, vL(vS(env, "t"), vS(env, "a")))
	return forms
}

func vh_C02_nested() {
	vFormatOpaque(true)
	env := vEvalEnv(0)
	vDiff(env, vProg_nested(env), "nested")
	vReach("nested")
}

// vh_C02_loops: for loops with plain and labelled break/continue inside
// cond inside let, symbolic bounds (all iteration counts up to the unwinding
// bound), nested loops.
func vProg_loops(env *Zlisp) []Sexp {
	e := env
	s := func(n string) Sexp { return vS(e, n) }
	forms := vC02Prelude(env)
	n := vInt64("n")
	vAssume(n >= 0 && n <= 3)
	limit := &SexpInt{Val: n}
	k := vSmallInt("k")
	inc := func(v string) Sexp { return vL(s("set"), s(v), vL(s("+"), s(v), vI(1))) }
	ctl := func(v string, lim Sexp) Sexp {
		return vA(e, vL(s("def"), s(v), vI(0)), vL(s("<"), s(v), lim), inc(v))
	}
	var loop Sexp
	switch vChoice("shape", 16) {
	case 11: // break inside the binding expression of a let (the let's scope is already open)
		loop = vL(s("for"), ctl("i", limit),
			vL(s("let"), vA(e, s("x"), vL(s("cond"), vL(s("=="), s("i"), k), vL(s("break")), s("i"))),
				vL(s("t"), s("x"))),
			vL(s("t"), vI(100)))
	case 12: // continue inside the second binding expression of a letseq
		loop = vL(s("for"), ctl("i", limit),
			vL(s("letseq"), vA(e, s("x"), s("i"), s("y"), vL(s("cond"), vL(s("=="), s("x"), k), vL(s("continue")), vL(s("+"), s("x"), vI(10)))),
				vL(s("t"), s("y"))),
			vL(s("t"), vI(100)))
	case 13: // the same inside a function with locals of its own, used after the loop
		loop = vL(s("begin"),
			vL(s("defn"), s("f"), vA(e, s("m")),
				vL(s("def"), s("loc"), vL(s("+"), s("m"), vI(1000))),
				vL(s("for"), ctl("i", s("m")),
					vL(s("let"), vA(e, s("x"), vL(s("cond"), vL(s("=="), s("i"), k), vL(s("break")), s("i"))), vL(s("t"), s("x")))),
				vL(s("+"), s("loc"), s("m"))),
			vL(s("+"), vL(s("f"), limit), vL(s("f"), vI(2))))
	case 14: // labelled break of the outer loop from a let binding inside the inner loop
		loop = vL(s("for"), s("outer:"), ctl("i", limit),
			vL(s("for"), ctl("j", vI(2)),
				vL(s("let"), vA(e, s("z"), vL(s("cond"), vL(s("=="), vL(s("+"), s("i"), s("j")), k), vL(s("break"), s("outer:")), vL(s("+"), s("i"), s("j")))),
					vL(s("t"), s("z")))),
			vL(s("t"), vI(100)))
	case 15: // break inside the binding of a let nested in another let's body
		loop = vL(s("for"), ctl("i", limit),
			vL(s("let"), vA(e, s("w"), vL(s("*"), s("i"), vI(2))),
				vL(s("let"), vA(e, s("x"), vL(s("cond"), vL(s("=="), s("i"), k), vL(s("break")), s("w"))),
					vL(s("t"), s("x")))))
	case 8: // break in a guarded cond arm inside a let inside the loop
		loop = vL(s("for"), ctl("i", limit),
			vL(s("let"), vA(e, s("x"), s("i")),
				vL(s("cond"), vL(s("=="), s("x"), k), vL(s("break")), SexpNull),
				vL(s("t"), s("x"))))
	case 9: // continue in a guarded arm inside newScope
		loop = vL(s("for"), ctl("i", limit),
			vL(s("newScope"), vL(s("def"), s("y"), s("i")),
				vL(s("cond"), vL(s("=="), s("y"), k), vL(s("continue")), vL(s("t"), s("y")))),
			vL(s("t"), vI(100)))
	case 10: // labelled break of the outer loop from a guarded arm inside let inside the inner loop
		loop = vL(s("for"), s("outer:"), ctl("i", limit),
			vL(s("for"), ctl("j", vI(2)),
				vL(s("let"), vA(e, s("z"), vL(s("+"), s("i"), s("j"))),
					vL(s("cond"), vL(s("=="), s("z"), k), vL(s("break"), s("outer:")), vL(s("<"), s("z"), vI(0)), vL(s("continue"), s("outer:")), vL(s("t"), s("z"))))))
	case 0: // plain loop, trace each index
		loop = vL(s("for"), ctl("i", limit), vL(s("t"), s("i")))
	case 1: // break when i == k
		loop = vL(s("for"), ctl("i", limit),
			vL(s("cond"), vL(s("=="), s("i"), k), vL(s("break")), vL(s("t"), s("i"))))
	case 2: // continue when i == k
		loop = vL(s("for"), ctl("i", limit),
			vL(s("cond"), vL(s("=="), s("i"), k), vL(s("continue")), vL(s("t"), s("i"))),
			vL(s("t"), vI(100)))
	case 3: // break inside let inside cond
		loop = vL(s("for"), ctl("i", limit),
			vL(s("let"), vA(e, s("j"), vL(s("+"), s("i"), vI(10))),
				vL(s("cond"), vL(s("=="), s("i"), k), vL(s("break")), vL(s("t"), s("j")))),
			vL(s("t"), vI(100)))
	case 4: // nested loops, labelled break of the outer loop
		loop = vL(s("for"), s("outer:"), ctl("i", limit),
			vL(s("for"), ctl("j", vI(2)),
				vL(s("cond"), vL(s("=="), vL(s("+"), s("i"), s("j")), k), vL(s("break"), s("outer:")), vL(s("t"), vL(s("+"), vL(s("*"), s("i"), vI(10)), s("j"))))),
			vL(s("t"), vI(100)))
	case 5: // nested loops, labelled continue of the outer loop
		loop = vL(s("for"), s("outer:"), ctl("i", limit),
			vL(s("for"), ctl("j", vI(2)),
				vL(s("cond"), vL(s("=="), vL(s("+"), s("i"), s("j")), k), vL(s("continue"), s("outer:")), vL(s("t"), vL(s("+"), vL(s("*"), s("i"), vI(10)), s("j"))))),
			vL(s("t"), vI(100)))
	case 6: // loop updating an outer variable through set; value after the loop
		loop = vL(s("begin"),
			vL(s("for"), ctl("i", limit), vL(s("set"), s("a"), vL(s("+"), s("a"), s("i")))),
			s("a"))
	default: // a loop inside a function called twice
		loop = vL(s("begin"),
			vL(s("defn"), s("f"), vA(e, s("m")),
				vL(s("for"), ctl("i", s("m")), vL(s("cond"), vL(s("=="), s("i"), k), vL(s("break")), vL(s("t"), s("i")))),
				s("m")),
			vL(s("+"), vL(s("f"), limit), vL(s("f"), vI(2))))
	}
	// afterwards: the global a, and the names the loop used (a global i is
	// defined first, so a loop scope left behind shows up as a wrong value)
	forms = append([]Sexp{vL(s("def"), s("i"), vI(100)), vL(s("def"), s("j"), vI(200))}, forms...)
	forms = append(forms, loop, vL(s("t"), s("a")), vL(s("t"), s("i")), vL(s("t"), s("j")))
	return forms
}

func vh_C02_loops() {
	vFormatOpaque(true)
	env := vEvalEnv(0)
	vDiff(env, vProg_loops(env), "loops")
	vReach("loops")
}

// vh_C02_calls: fixed and variadic parameters, recursion, apply and map,
// argument evaluation order (callee first, then left to right, once each).
func vProg_calls(env *Zlisp) []Sexp {
	e := env
	s := func(n string) Sexp { return vS(e, n) }
	forms := vC02Prelude(env)
	tr := func(x Sexp) Sexp { return vL(s("t"), x) }
	p, q, r := vSmallInt("p"), vSmallInt("q"), vSmallInt("r")
	var f Sexp
	switch vChoice("shape", 19) {
	case 15: // the head is bound to a number: an error, and the arguments are never evaluated
		f = vL(s("begin"), vL(s("def"), s("x"), p), vL(s("x"), tr(q), tr(r)))
	case 16: // the head is bound to a string
		f = vL(s("begin"), vL(s("def"), s("x"), &SexpStr{S: "str"}), vL(s("x"), tr(q)))
	case 17: // the head is computed (with an effect) and is not callable
		f = vL(vL(s("begin"), tr(vI(7)), p), tr(q), tr(r))
	case 18: // a parameter that holds a number is called
		f = vL(s("begin"), vL(s("defn"), s("f"), vA(e, s("h"), s("u")), vL(s("h"), tr(s("u")))), vL(s("f"), p, q))
	case 10: // map over a list: the function is called on the elements first to last
		f = vL(s("begin"), vL(s("defn"), s("f"), vA(e, s("u")), tr(vL(s("*"), s("u"), vI(2)))),
			vL(s("map"), s("f"), vL(s("list"), p, q, r)))
	case 11: // map where the function fails on one element: the first failing element's error stops it
		f = vL(s("begin"), vL(s("defn"), s("f"), vA(e, s("u")), vL(s("cond"), vL(s("<"), s("u"), vI(0)), vL(s("nosuchfn")), tr(s("u")))),
			vL(s("map"), s("f"), vL(s("list"), p, q, r)))
	case 12: // apply with a list of arguments
		f = vL(s("begin"), vL(s("defn"), s("f"), vA(e, s("u"), s("v")), vL(s("-"), s("u"), s("v"))),
			vL(s("apply"), s("f"), vL(s("list"), tr(p), tr(q))))
	case 13: // map over an array with a function that fails on one element
		f = vL(s("begin"), vL(s("defn"), s("f"), vA(e, s("u")), vL(s("cond"), vL(s("<"), s("u"), vI(0)), vL(s("nosuchfn")), tr(s("u")))),
			vL(s("map"), s("f"), vA(e, p, q, r)))
	case 14: // nested maps: inner over a list, outer over an array
		f = vL(s("begin"), vL(s("defn"), s("f"), vA(e, s("u")), tr(s("u"))),
			vL(s("map"), vL(s("fn"), vA(e, s("w")), vL(s("map"), s("f"), vL(s("list"), s("w"), vL(s("+"), s("w"), vI(1))))), vA(e, p, q)))
	case 0: // argument order
		f = vL(s("begin"), vL(s("defn"), s("f"), vA(e, s("u"), s("v"), s("w")), vL(s("-"), vL(s("-"), s("u"), s("v")), s("w"))),
			vL(s("f"), tr(p), tr(q), tr(r)))
	case 1: // callee evaluated before the arguments
		f = vL(s("begin"), vL(s("defn"), s("f"), vA(e, s("u")), vL(s("+"), s("u"), vI(1))),
			vL(vL(s("begin"), tr(vI(7)), s("f")), tr(p)))
	case 2: // variadic tail
		f = vL(s("begin"), vL(s("defn"), s("f"), vA(e, s("u"), s("&"), s("rest")), vL(s("list"), s("u"), s("rest"))),
			vL(s("f"), tr(p), tr(q), tr(r)))
	case 3: // variadic, empty tail
		f = vL(s("begin"), vL(s("defn"), s("f"), vA(e, s("u"), s("&"), s("rest")), vL(s("list"), s("u"), s("rest"))),
			vL(s("f"), tr(p)))
	case 4: // wrong arity is an error after evaluating the arguments
		f = vL(s("begin"), vL(s("defn"), s("f"), vA(e, s("u"), s("v")), s("u")),
			vL(s("f"), tr(p)))
	case 5: // recursion with a symbolic depth
		n := vInt64("n")
		vAssume(n >= 0 && n <= 3)
		f = vL(s("begin"), vL(s("defn"), s("f"), vA(e, s("m")),
			vL(s("cond"), vL(s("<="), s("m"), vI(0)), vI(0), vL(s("+"), tr(s("m")), vL(s("f"), vL(s("-"), s("m"), vI(1)))))),
			vL(s("f"), &SexpInt{Val: n}))
	case 6: // apply
		f = vL(s("begin"), vL(s("defn"), s("f"), vA(e, s("u"), s("v")), vL(s("-"), s("u"), s("v"))),
			vL(s("apply"), s("f"), vA(e, tr(p), tr(q))))
	case 7: // map over an array
		f = vL(s("begin"), vL(s("defn"), s("f"), vA(e, s("u")), tr(vL(s("*"), s("u"), vI(2)))),
			vL(s("map"), s("f"), vA(e, p, q)))
	case 8: // closure counter: shared state between calls
		f = vL(s("begin"),
			vL(s("def"), s("mk"), vL(s("fn"), vA(e), vL(s("let"), vA(e, s("c"), p), vL(s("fn"), vA(e), vL(s("set"), s("c"), vL(s("+"), s("c"), vI(1))), s("c"))))),
			vL(s("def"), s("g"), vL(s("mk"))),
			vL(s("g")), vL(s("+"), vL(s("g")), vL(s("*"), vI(100), vL(vL(s("mk"))))))
	default: // a function value passed as argument
		f = vL(s("begin"), vL(s("defn"), s("twice"), vA(e, s("h"), s("u")), vL(s("h"), vL(s("h"), s("u")))),
			vL(s("twice"), vL(s("fn"), vA(e, s("z")), tr(vL(s("+"), s("z"), q))), p))
	}
	forms = append(forms, f, vL(s("t"), s("a")))
	return forms
}

func vh_C02_calls() {
	vFormatOpaque(true)
	env := vEvalEnv(0)
	vDiff(env, vProg_calls(env), "calls")
	vReach("calls")
}

// vh_C02_recursion: self-recursive functions with the recursive call in
// every kind of position (see vProgRecursion): value, error-ness and effect
// order against the reference evaluator.
func vh_C02_recursion() {
	vFormatOpaque(true)
	env := vEvalEnv(0)
	vDiff(env, vProgRecursion(env), "recursion")
	vReach("recursion")
}

// vh_C02_truthiness: the truthiness rule (false, nil and integer/char/uint64
// zero are false; every other value - floats including 0.0, strings
// including "", arrays, hashes, symbols, functions - is true) as cond, and,
// or, not, the for-loop test and infix if apply it, for values written as
// literals and values computed at run time.
var vC02TruthValues = []struct {
	src    string
	truthy bool
}{
	{`0`, false}, {`5`, true}, {`(- 9001 9001)`, false}, {`0.0`, true}, {`-0.0`, true}, {`2.5`, true}, {`(- 1.5 1.5)`, true},
	{`""`, true}, {`"s"`, true}, {`[]`, true}, {`[0]`, true}, {`nil`, false}, {`false`, false}, {`true`, true},
	{`'a'`, true}, {`0ULL`, false}, {`3ULL`, true}, {`(hash)`, true}, {`(quote sym)`, true}, {`(fn [] 0)`, true}, {`(list)`, false}, {`(list 0)`, true},
	{`NaN`, true},
}

var vC02TruthForms = []struct {
	src      string
	ifTrue   int64
	ifFalse  int64
}{
	{`(cond V 1 2)`, 1, 2},
	{`(cond (and V 7) 1 2)`, 1, 2},
	{`(cond (or V false) 1 2)`, 1, 2},
	{`(cond (not V) 1 2)`, 2, 1},
	{`(begin (def n 0) (for [(def i 0) (and (< i 1) V) (set i (+ i 1))] (set n 1)) (cond (== n 1) 1 2))`, 1, 2},
	{`(begin (defn tf [u] (cond u 1 2)) (tf V))`, 1, 2},
}

func vh_C02_truthiness() {
	vFormatOpaque(true)
	env := vStdEnvs(1)[0]
	vk := vChoice("value", len(vC02TruthValues))
	fk := vChoice("form", len(vC02TruthForms)+1)
	v := vC02TruthValues[vk]
	var src string
	var want int64
	if fk == len(vC02TruthForms) {
		src = `(def tv ` + v.src + `) { r := 2; if tv { r = 1 }; r }`
		want = 2
		if v.truthy {
			want = 1
		}
	} else {
		f := vC02TruthForms[fk]
		src = vReplace(f.src, "V", v.src)
		want = f.ifFalse
		if v.truthy {
			want = f.ifTrue
		}
	}
	var res Sexp
	var err error
	p := false
	for _, f := range vT(env, src, vSmallInt("h")) {
		res, err, p = vEval(env, f)
		if err != nil || p {
			break
		}
	}
	vAssert(!p && err == nil, "truthiness-program-evaluates")
	if p || err != nil {
		return
	}
	r, isI := res.(*SexpInt)
	vAssert(isI && r.Val == want, "truthiness-rule")
	vReach("truthiness")
}
