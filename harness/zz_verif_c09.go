//go:build verif

package zygo

import "fmt"

// C09 — tail calls are free and invisible.

var vC09Wrappers = []string{
	`E`,
	`(begin 1 E)`,
	`(let [z 1] E)`,
	`(letseq [z 1 w z] E)`,
	`(newScope E)`,
	`(and true E)`,
	`(or false E)`,
	`(cond false 0 E)`,
	`(let [z 1] (def u z) E)`,
}

type vC09Sample struct{ data, scopes, calls, loops int }

// vh_C09_space: the inductive step for constant space.  The function is
// entered with a *symbolic* counter (any value >= 3); a host function called
// at the top of the body samples the four stack depths at each arrival.
// Depths at the 2nd and 3rd arrival are equal for an arbitrary counter and
// accumulator: one trip round the back edge from an arbitrary state does not
// grow any stack, hence none of the later trips does.
func vh_C09_space() {
	vFormatOpaque(true)
	env := vEvalEnv(0)
	var samples []vC09Sample
	env.AddFunction("probe", func(env *Zlisp, name string, args []Sexp) (Sexp, error) {
		samples = append(samples, vC09Sample{env.datastack.Size(), env.linearstack.Size(), env.addrstack.Size(), env.loopstack.Size()})
		if len(samples) >= 4 {
			return SexpNull, fmt.Errorf("verif: enough samples")
		}
		return SexpNull, nil
	})
	w1 := vC09Wrappers[vChoice("outer", len(vC09Wrappers))]
	w2 := vC09Wrappers[vChoice("inner", len(vC09Wrappers))]
	// the self call in the default arm, or in a predicate-guarded arm
	core := []string{`(cond (<= n 0) acc (f (- n 1) (+ acc n)))`, `(cond (> n 0) (f (- n 1) (+ acc n)) acc)`,
		`(cond (< n 0) 0 (> n 0) (f (- n 1) (+ acc n)) acc)`}[vChoice("core", 3)]
	// the function's signature and the shape of its self call: fixed
	// parameters; variadic with no, one and two rest arguments passed on
	params, first := `[n acc]`, `(f 9001 9002)`
	switch vChoice("signature", 5) {
	case 1:
		params, first = `[n & opts]`, `(f 9001)`
		core = `(cond (<= n 0) 0 (f (- n 1)))`
	case 2:
		params, first = `[n & opts]`, `(f 9001 9002)`
		core = `(cond (<= n 0) 0 (f (- n 1) n))`
	case 3:
		params, first = `[n acc & opts]`, `(f 9001 9002)`
		core = `(cond (<= n 0) acc (f (- n 1) (+ acc n)))`
	case 4:
		params, first = `[n acc & opts]`, `(f 9001 9002 1 2)`
		core = `(cond (<= n 0) acc (f (- n 1) (+ acc n) n acc))`
	}
	body := vReplace(w1, "E", vReplace(w2, "E", core))
	n := vInt64("n")
	vAssume(n >= 3)
	acc := vInt64("acc")
	forms := vT(env, `(defn f `+params+` (probe) `+body+`) `+first, &SexpInt{Val: n}, &SexpInt{Val: acc})
	for _, f := range forms {
		_, err, p := vEval(env, f)
		vAssert(!p, "space-no-panic")
		if p {
			return
		}
		if err != nil {
			break // the probe stops the run after the 4th arrival
		}
	}
	vAssert(len(samples) >= 4, "space-reaches-four-arrivals")
	if len(samples) < 4 {
		return
	}
	vC04AtRest(env, "space-after-run")
	vAssert(samples[1] == samples[2], "space-trip-preserves-depths")
	vAssert(samples[2] == samples[3], "space-next-trip-preserves-depths")
	vAssert(samples[0].calls == samples[1].calls && samples[0].scopes == samples[1].scopes && samples[0].data == samples[1].data, "space-first-trip-preserves-depths")
	vReach("space")
}

// vh_C09_invisible: the optimisation changes no value and no effect,
// including what closures created in earlier iterations observe: the same
// shapes, with a body that defines a local and captures it in a closure
// before the tail call, against the reference evaluator (which has no such
// optimisation).
func vh_C09_invisible() {
	vFormatOpaque(true)
	env := vEvalEnv(0)
	w1 := vC09Wrappers[vChoice("outer", len(vC09Wrappers))]
	w2 := vC09Wrappers[vChoice("inner", len(vC09Wrappers))]
	core := []string{`(cond (<= n 0) acc (f (- n 1) (+ acc (t n))))`, `(cond (> n 0) (f (- n 1) (+ acc (t n))) acc)`}[vChoice("core", 2)]
	body := vReplace(w1, "E", vReplace(w2, "E", core))
	n := vInt64("n")
	vAssume(n >= 0 && n <= 3)
	prog := `(def fs []) (defn f [n acc] (def loc (* n 10)) (set fs (append fs (fn [] (+ loc n)))) ` + body + `)
		(def r (f 9001 9002))
		(def sum 0)
		(for [(def i 0) (< i (len fs)) (set i (+ i 1))] (set sum (+ sum (t ((aget fs i))))))
		(list r sum (len fs))`
	forms := vT(env, prog, &SexpInt{Val: n}, vSmallInt("acc"))
	vDiff(env, forms, "invisible")
	vReach("invisible")
}

// vProgRecursion: a self-recursive function whose recursive call sits in
// every kind of position - tail position (compiled as a jump), a non-final
// operand of and/or, an operand of arithmetic, a let binding, a non-final
// statement, a cond test, an argument of a tail self-call - under <= 2
// wrappers of tail contexts.  Only the call in tail position may be
// optimised; every other one must be a real call whose result comes back to
// the place it was called from.
var vRecursionCores = []string{
	`(f (- n 1) (+ acc (t n)))`,
	`(or (f (- n 1) acc) (t n))`,
	`(and (f (- n 1) (+ acc 1)) (t n))`,
	`(+ (t n) (f (- n 1) acc))`,
	`(f (- n 1) (f (- n 2) (+ acc (t n))))`,
	`(begin (f (- n 1) acc) (t n))`,
	`(let [y (f (- n 1) acc)] (+ y (t n)))`,
	`(cond (f (- n 1) 0) (t n) (+ acc (t (* n 10))))`,
	`(f (- n 1) (or (f (- n 2) 0) (t n)))`,
	`(or (and (f (- n 1) 0) 7) (f (- n 1) (+ acc (t n))))`,
	`(t (f (- n 1) (+ acc n)))`,
	`(set g (f (- n 1) (+ acc (t n))))`,
	`(def q (f (- n 1) (+ acc (t n))))`,
	`(begin (set g (+ g 1)) (set g (+ g (f (- n 1) acc))))`,
	`(let [w (t n)] (set g (f (- n 1) (+ acc w))))`,
}

func vProgRecursion(env *Zlisp) []Sexp {
	w1 := vC09Wrappers[vChoice("outer", len(vC09Wrappers))]
	inner := vC09Wrappers
	if vTier() == 0 {
		inner = []string{`E`, `(let [z 1] E)`, `(or false E)`}
	}
	w2 := inner[vChoice("inner", len(inner))]
	rec := vRecursionCores[vChoice("core", len(vRecursionCores))]
	core := []string{`(cond (<= n 0) acc REC)`, `(cond (> n 0) REC acc)`}[vChoice("guard", 2)]
	body := vReplace(w1, "E", vReplace(w2, "E", vReplace(core, "REC", rec)))
	n := vInt64("n")
	vAssume(n >= 0 && n <= 3)
	return vT(env, `(def g 5) (defn f [n acc] `+body+`) (list (f 9001 9002) (t 77) g)`, &SexpInt{Val: n}, vSmallInt("acc"))
}

func vh_C09_positions() {
	vFormatOpaque(true)
	env := vEvalEnv(0)
	vDiff(env, vProgRecursion(env), "positions")
	vC04AtRest(env, "positions")
	vReach("positions")
}

// vh_C09_callsites: the optimisation is invisible however the function was
// reached and whatever its own name means where it was called from: a
// tail-recursive function (fixed and variadic parameters, the self call under
// tail-context wrappers) invoked directly, through an alias, from a caller
// whose parameter or let-local has the function's name, as an argument, and
// from inside a closure - against the reference evaluator.
var vC09Functions = []string{
	`(defn f [n acc] W)`,
	`(defn f [n & rest] V)`,
}

var vC09FixedCores = []string{
	`(cond (<= n 0) acc (f (- n 1) (+ acc (t n))))`,
	`(cond (> n 0) (f (- n 1) (+ acc (t n))) acc)`,
}

var vC09VariadicCores = []string{
	`(cond (<= n 0) rest (f (- n 1) (t n)))`,
	`(cond (<= n 0) rest (f (- n 1) (t n) n))`,
	`(cond (<= n 0) (list n rest) (f (- n 1)))`,
	`(cond (> n 0) (f (- n 1) rest (t n)) rest)`,
}

var vC09CallSites = []string{
	`(f 9001 9002)`,
	`(def g f) (g 9001 9002)`,
	`(def g f) (defn via [f] (g 9001 9002)) (via 5)`,
	`(def g f) (defn via [] (let [f 7] (let [x (g 9001 9002)] x))) (via)`,
	`(def g f) (defn via [f] (g 9001 9002)) (via (fn [a] a))`,
	`(defn via [h] (h 9001 9002)) (via f)`,
	`(def g f) (defn mk [f] (fn [] (g 9001 9002))) ((mk 3))`,
}

func vh_C09_callsites() {
	vFormatOpaque(true)
	env := vEvalEnv(0)
	w := vC09Wrappers[vChoice("wrap", len(vC09Wrappers))]
	var def string
	if vChoice("variadic", 2) == 0 {
		core := vC09FixedCores[vChoice("core", len(vC09FixedCores))]
		def = vReplace(vC09Functions[0], "W", vReplace(w, "E", core))
	} else {
		core := vC09VariadicCores[vChoice("vcore", len(vC09VariadicCores))]
		def = vReplace(vC09Functions[1], "V", vReplace(w, "E", core))
	}
	site := vC09CallSites[vChoice("site", len(vC09CallSites))]
	n := vInt64("n")
	vAssume(n >= 0 && n <= 3)
	forms := vT(env, def+" "+site+" (t 77)", &SexpInt{Val: n}, vSmallInt("acc"))
	vDiff(env, forms, "callsites")
	vC04AtRest(env, "callsites")
	vReach("callsites")
}

// vh_C09_rebound: the function's own global name is rebound to a number
// while an alias still reaches the function.  Without the optimisation the
// body's (f ...) would then be a call of a number (an error); read as "a
// function that names itself in tail position continues itself" it gives the
// value of the un-rebound run.  Either is accepted; anything else - a garbled
// argument list, a different value, an evaluation that never returns - is not
// (the engine's step budget turns non-termination into a failed check).
func vh_C09_rebound() {
	vFormatOpaque(true)
	env := vEvalEnv(0)
	twin := vEvalEnvs[1]
	w := vC09Wrappers[vChoice("wrap", len(vC09Wrappers))]
	var def string
	if vChoice("variadic", 2) == 0 {
		core := vC09FixedCores[vChoice("core", len(vC09FixedCores))]
		def = vReplace(vC09Functions[0], "W", vReplace(w, "E", core))
	} else {
		core := vC09VariadicCores[vChoice("vcore", len(vC09VariadicCores))]
		def = vReplace(vC09Functions[1], "V", vReplace(w, "E", core))
	}
	n := vInt64("n")
	vAssume(n >= 1 && n <= 3)
	acc := vSmallInt("acc")
	run := func(e *Zlisp, prog string) (Sexp, error, bool) {
		var res Sexp
		var err error
		panicked := false
		for _, f := range vT(e, prog, &SexpInt{Val: n}, acc) {
			res, err, panicked = vEval(e, f)
			if err != nil || panicked {
				break
			}
		}
		return res, err, panicked
	}
	want, errW, pW := run(twin, def+" (def g f) (g 9001 9002)")
	if errW != nil || pW {
		vDone()
	}
	traceW := append([]int64(nil), vTraceLog...)
	vTraceLog = nil
	// the un-rebound run returned: so must this one
	vSetStepBudget(2000000)
	vBudgetFails("rebound-name-evaluation-returns")
	got, err, panicked := run(env, def+" (def g f) (def f 5) (g 9001 9002)")
	vBudgetFails("")
	vAssert(!panicked, "rebound-no-panic")
	if panicked {
		return
	}
	if err == nil {
		vAssert(vSexpEq(got, want), "rebound-name-gives-an-error-or-the-self-recursive-value")
		vAssert(len(vTraceLog) == len(traceW), "rebound-name-same-effects")
	}
	vC04AtRest(env, "rebound")
	vReach("rebound")
}

// vh_C09_hidden: what the optimised self call may assume about the body.
// (a) closures that capture the activation's variables are created where the
// body text shows no fn/defn - by a macro - and are
// called after later iterations ran: the program must behave like the one
// with the fn written out (run in a twin interpreter).  (b) a def that runs
// in some iterations only and shadows a global: the other iterations see the
// global (reference evaluator: a fresh frame per activation).
func vh_C09_hidden() {
	vFormatOpaque(true)
	env := vEvalEnv(0)
	twin := vEvalEnvs[1]
	w := vC09Wrappers[vChoice("wrap", len(vC09Wrappers))]
	n := vInt64("n")
	vAssume(n >= 0 && n <= 3)
	acc := vSmallInt("acc")
	core := `(cond (<= n 0) acc (f (- n 1) (+ acc (t n))))`
	if vChoice("kind", 2) == 0 {
		maker := []string{`(thunk (+ loc n))`, `(mk2)`}[vChoice("maker", 2)]
		prog := func(mk string) string {
			return `(defmac thunk [x] ^(fn [] ~x)) (defmac mk2 [] ^(fn [] (+ loc n))) (def fs []) (defn f [n acc] (def loc (* n 10)) (set fs (append fs ` + mk + `)) ` + vReplace(w, "E", core) + `)
				(def r (f 9001 9002)) (def sum 0)
				(for [(def i 0) (< i (len fs)) (set i (+ i 1))] (set sum (+ (* sum 100) (t ((aget fs i))))))
				(list r sum (len fs))`
		}
		run := func(e *Zlisp, src string) (Sexp, error, bool) {
			var res Sexp
			var err error
			p := false
			for _, f := range vT(e, src, &SexpInt{Val: n}, acc) {
				res, err, p = vEval(e, f)
				if err != nil || p {
					break
				}
			}
			return res, err, p
		}
		want, errW, pW := run(twin, prog(`(fn [] (+ loc n))`))
		traceW := append([]int64(nil), vTraceLog...)
		vTraceLog = nil
		got, err, p := run(env, prog(maker))
		vAssert(!p && !pW, "hidden-closure-no-panic")
		if p || pW {
			return
		}
		vAssert((err == nil) == (errW == nil), "hidden-closure-same-errorness-as-written-out-fn")
		if err == nil && errW == nil {
			vAssert(vSexpEq(got, want), "hidden-closure-same-value-as-written-out-fn")
			vAssert(len(vTraceLog) == len(traceW), "hidden-closure-same-effects")
		}
		vReach("hidden-closure")
		return
	}
	// (b) conditional local definition
	body := []string{
		`(cond (== n 2) (def q 99) 0) (cond (<= n 0) (+ acc q) (f (- n 1) (+ acc (* q (t n)))))`,
		`(cond (== n 1) (def acc 0) 0) (cond (<= n 0) (+ acc q) (f (- n 1) (+ acc (t n))))`,
		`(cond (> n 1) (let [] (def q 7) 0) 0) (cond (<= n 0) q (f (- n 1) (+ acc q)))`,
	}[vChoice("body", 3)]
	forms := vT(env, `(def q 5) (defn f [n acc] `+body+`) (list (f 9001 9002) q)`, &SexpInt{Val: n}, acc)
	vDiff(env, forms, "conditional-def")
	vReach("conditional-def")
}
