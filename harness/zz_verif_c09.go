//go:build verif

package zygo

import "fmt"

// C09 — tail calls are free and invisible.

var vC09Wrappers = []string{
	`E`,
	`(begin 1 E)`,
	`(let [z 1] E)`,
	`(letseq [z 1 w z] E)`,
	`(newScope E)`,
	`(and true E)`,
	`(or false E)`,
	`(cond false 0 E)`,
	`(let [z 1] (def u z) E)`,
}

type vC09Sample struct{ data, scopes, calls, loops int }

// vh_C09_space: the inductive step for constant space.  The function is
// entered with a *symbolic* counter (any value >= 3); a host function called
// at the top of the body samples the four stack depths at each arrival.
// Depths at the 2nd and 3rd arrival are equal for an arbitrary counter and
// accumulator: one trip round the back edge from an arbitrary state does not
// grow any stack, hence none of the later trips does.
func vh_C09_space() {
	vFormatOpaque(true)
	env := vEvalEnv(0)
	var samples []vC09Sample
	env.AddFunction("probe", func(env *Zlisp, name string, args []Sexp) (Sexp, error) {
		samples = append(samples, vC09Sample{env.datastack.Size(), env.linearstack.Size(), env.addrstack.Size(), env.loopstack.Size()})
		if len(samples) >= 4 {
			return SexpNull, fmt.Errorf("verif: enough samples")
		}
		return SexpNull, nil
	})
	w1 := vC09Wrappers[vChoice("outer", len(vC09Wrappers))]
	w2 := vC09Wrappers[vChoice("inner", len(vC09Wrappers))]
	// the self call in the default arm, or in a predicate-guarded arm
	core := []string{`(cond (<= n 0) acc (f (- n 1) (+ acc n)))`, `(cond (> n 0) (f (- n 1) (+ acc n)) acc)`,
		`(cond (< n 0) 0 (> n 0) (f (- n 1) (+ acc n)) acc)`}[vChoice("core", 3)]
	body := vReplace(w1, "E", vReplace(w2, "E", core))
	n := vInt64("n")
	vAssume(n >= 3)
	acc := vInt64("acc")
	forms := vT(env, `(defn f [n acc] (probe) `+body+`) (f 9001 9002)`, &SexpInt{Val: n}, &SexpInt{Val: acc})
	for _, f := range forms {
		_, err, p := vEval(env, f)
		vAssert(!p, "space-no-panic")
		if p {
			return
		}
		if err != nil {
			break // the probe stops the run after the 4th arrival
		}
	}
	vAssert(len(samples) >= 4, "space-reaches-four-arrivals")
	if len(samples) < 4 {
		return
	}
	vC04AtRest(env, "space-after-run")
	vAssert(samples[1] == samples[2], "space-trip-preserves-depths")
	vAssert(samples[2] == samples[3], "space-next-trip-preserves-depths")
	vAssert(samples[0].calls == samples[1].calls && samples[0].scopes == samples[1].scopes && samples[0].data == samples[1].data, "space-first-trip-preserves-depths")
	vReach("space")
}

// vh_C09_invisible: the optimisation changes no value and no effect,
// including what closures created in earlier iterations observe: the same
// shapes, with a body that defines a local and captures it in a closure
// before the tail call, against the reference evaluator (which has no such
// optimisation).
func vh_C09_invisible() {
	vFormatOpaque(true)
	env := vEvalEnv(0)
	w1 := vC09Wrappers[vChoice("outer", len(vC09Wrappers))]
	w2 := vC09Wrappers[vChoice("inner", len(vC09Wrappers))]
	core := []string{`(cond (<= n 0) acc (f (- n 1) (+ acc (t n))))`, `(cond (> n 0) (f (- n 1) (+ acc (t n))) acc)`}[vChoice("core", 2)]
	body := vReplace(w1, "E", vReplace(w2, "E", core))
	n := vInt64("n")
	vAssume(n >= 0 && n <= 3)
	prog := `(def fs []) (defn f [n acc] (def loc (* n 10)) (set fs (append fs (fn [] (+ loc n)))) ` + body + `)
		(def r (f 9001 9002))
		(def sum 0)
		(for [(def i 0) (< i (len fs)) (set i (+ i 1))] (set sum (+ sum (t ((aget fs i))))))
		(list r sum (len fs))`
	forms := vT(env, prog, &SexpInt{Val: n}, vSmallInt("acc"))
	vDiff(env, forms, "invisible")
	vReach("invisible")
}

// vProgRecursion: a self-recursive function whose recursive call sits in
// every kind of position - tail position (compiled as a jump), a non-final
// operand of and/or, an operand of arithmetic, a let binding, a non-final
// statement, a cond test, an argument of a tail self-call - under <= 2
// wrappers of tail contexts.  Only the call in tail position may be
// optimised; every other one must be a real call whose result comes back to
// the place it was called from.
var vRecursionCores = []string{
	`(f (- n 1) (+ acc (t n)))`,
	`(or (f (- n 1) acc) (t n))`,
	`(and (f (- n 1) (+ acc 1)) (t n))`,
	`(+ (t n) (f (- n 1) acc))`,
	`(f (- n 1) (f (- n 2) (+ acc (t n))))`,
	`(begin (f (- n 1) acc) (t n))`,
	`(let [y (f (- n 1) acc)] (+ y (t n)))`,
	`(cond (f (- n 1) 0) (t n) (+ acc (t (* n 10))))`,
	`(f (- n 1) (or (f (- n 2) 0) (t n)))`,
	`(or (and (f (- n 1) 0) 7) (f (- n 1) (+ acc (t n))))`,
	`(t (f (- n 1) (+ acc n)))`,
}

func vProgRecursion(env *Zlisp) []Sexp {
	w1 := vC09Wrappers[vChoice("outer", len(vC09Wrappers))]
	inner := vC09Wrappers
	if vTier() == 0 {
		inner = []string{`E`, `(let [z 1] E)`, `(or false E)`}
	}
	w2 := inner[vChoice("inner", len(inner))]
	rec := vRecursionCores[vChoice("core", len(vRecursionCores))]
	core := []string{`(cond (<= n 0) acc REC)`, `(cond (> n 0) REC acc)`}[vChoice("guard", 2)]
	body := vReplace(w1, "E", vReplace(w2, "E", vReplace(core, "REC", rec)))
	n := vInt64("n")
	vAssume(n >= 0 && n <= 3)
	return vT(env, `(defn f [n acc] `+body+`) (list (f 9001 9002) (t 77))`, &SexpInt{Val: n}, vSmallInt("acc"))
}

func vh_C09_positions() {
	vFormatOpaque(true)
	env := vEvalEnv(0)
	vDiff(env, vProgRecursion(env), "positions")
	vC04AtRest(env, "positions")
	vReach("positions")
}
