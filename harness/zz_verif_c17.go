//go:build verif

package zygo

// C17 — declared struct types are enforced on every write.

const vC17Decl = `(struct Dog [(field Name: string e:0) (field Number: int64 e:1) (field Weight: float64 e:2) (field Good: bool e:3)]) `

var vC17Programs = []struct {
	src  string
	want int // 1: last form evaluates to hole 9001; -1: the last-but-readback form must be an error and then Number is still 9001
}{
	// construction
	{`(def d (Dog Name: "rover" Number: 9001)) (+ 0 d.Number)`, 1},
	{`(def r (Dog Number: "notanumber"))`, -2},
	{`(def r (Dog Name: 9001))`, -2},
	{`(def r (Dog NotHere: 9001))`, -2},
	{`(def r (Dog Good: 9001))`, -2},
	// field update through hset
	{`(def d (Dog Name: "rover" Number: 9002)) (hset d Number: 9001) (+ 0 d.Number)`, 1},
	{`(def d (Dog Name: "rover" Number: 9001)) (hset d Number: "seven")`, -1},
	{`(def d (Dog Name: "rover" Number: 9001)) (hset d Name: 9002)`, -1},
	{`(def d (Dog Name: "rover" Number: 9001)) (hset d NotHere: 9002)`, -1},
	{`(def d (Dog Name: "rover" Number: 9001)) (hset d Weight: "heavy")`, -1},
	// dot-path / infix assignment
	{`(def d (Dog Name: "rover" Number: 9002)) {d.Number = 9001} (+ 0 d.Number)`, 1},
	{`(def d (Dog Name: "rover" Number: 9001)) {d.Number = "seven"}`, -1},
	{`(def d (Dog Name: "rover" Number: 9001)) {d.Name = 9002}`, -1},
	{`(def d (Dog Name: "rover" Number: 9001)) {d.NotHere = 9002}`, -1},
	{`(def d (Dog Name: "rover" Number: 9001)) (set d.Number "seven")`, -1},
	{`(def d (Dog Name: "rover" Number: 9002)) (set d.Number 9001) (+ 0 d.Number)`, 1},
	// (rebinding the variable itself, {d = 12}, is not a write to an instance:
	// the statement says nothing about it and nothing is asserted)
	// redeclaration in between: existing instances keep their definition
	{`(def d (Dog Name: "rover" Number: 9001)) (struct Dog [(field Name: int64 e:0) (field Number: string e:1)]) (hset d Number: "seven")`, -1},
	{`(def d (Dog Name: "rover" Number: 9002)) (struct Dog [(field Name: int64 e:0) (field Number: string e:1)]) (hset d Number: 9001) (+ 0 d.Number)`, 1},
	// writes through pointers
	{`(def d (Dog Name: "rover" Number: 9002)) (def pd (& d)) (derefSet pd (Dog Name: "rex" Number: 9001)) (+ 0 d.Number)`, 1},
	{`(def d (Dog Name: "rover" Number: 9001)) (def pd (& d)) (derefSet pd 12)`, -1},
	{`(def d (Dog Name: "rover" Number: 9001)) (def pd (& d)) (derefSet pd "str")`, -1},
	{`(struct Cat [(field Nip: string e:0)]) (def d (Dog Name: "rover" Number: 9001)) (def pd (& d)) (derefSet pd (Cat Nip: "green"))`, -1},
	{`(def d (Dog Name: "rover" Number: 9001)) (def pd (& d)) (struct Dog [(field Name: int64 e:0) (field Heavy: float64 e:1)]) (def d2 (Dog Name: 7 Heavy: 2.5)) (derefSet pd d2)`, -1},
	// a struct declared without fields, instantiated, then redeclared with fields: the old instance keeps its (empty) definition
	{`(struct Bare []) (def d (Dog Name: "rover" Number: 9001)) (def e (Bare)) (struct Bare [(field Big: int64 e:0)]) (hset e Big: 5)`, -1},
	{`(struct Bare []) (def d (Dog Name: "rover" Number: 9001)) (def e (Bare)) (struct Bare [(field Big: int64 e:0)]) {e.Big = 5}`, -1},
	{`(struct Bare []) (def d (Dog Name: "rover" Number: 9001)) (def e (Bare)) (hset e Anything: 5)`, -1},
	// instances made after the redeclaration follow the new definition
	{`(def d (Dog Name: "rover" Number: 9001)) (struct Dog [(field Name: string e:0) (field Number: int64 e:1) (field Extra: int64 e:2)]) (def d3 (Dog Name: "n" Number: 1 Extra: 9001)) (+ 0 d3.Extra)`, 1},
	{`(def d (Dog Name: "rover" Number: 9001)) (struct Dog [(field Name: string e:0) (field Number: int64 e:1) (field Extra: int64 e:2)]) (hset d Extra: 4)`, -1},
	// slice-typed and pointer-typed fields
	{`(struct Crate [(field Tags: ([]string) e:0) (field Nums: ([]int64) e:1) (field Next: (* Crate) e:2)]) (def d (Dog Name: "rover" Number: 9001)) (def c (Crate Tags: ["a" "b"])) (hset c Tags: ["x"]) (+ 0 d.Number)`, 1},
	{`(struct Crate [(field Tags: ([]string) e:0) (field Nums: ([]int64) e:1)]) (def d (Dog Name: "rover" Number: 9001)) (def c (Crate Tags: ["a"])) (hset c Tags: [1 2])`, -1},
	{`(struct Crate [(field Tags: ([]string) e:0) (field Nums: ([]int64) e:1)]) (def d (Dog Name: "rover" Number: 9001)) (def c (Crate Tags: ["a"])) (hset c Tags: [nil 5])`, -1},
	{`(struct Crate [(field Tags: ([]string) e:0) (field Nums: ([]int64) e:1)]) (def d (Dog Name: "rover" Number: 9001)) (def c (Crate Tags: ["a"])) (hset c Tags: [(list 1 2) "s"])`, -1},
	{`(struct Crate [(field Tags: ([]string) e:0) (field Nums: ([]int64) e:1)]) (def d (Dog Name: "rover" Number: 9001)) (def c (Crate Tags: ["a"])) {c.Nums = ["s" 1]}`, -1},
	{`(struct Crate [(field Tags: ([]string) e:0) (field Nums: ([]int64) e:1)]) (def d (Dog Name: "rover" Number: 9001)) (def c (Crate Tags: ["a"])) (hset c Tags: "notaslice")`, -1},
	{`(struct Crate [(field Tags: ([]string) e:0) (field Nums: ([]int64) e:1)]) (def d (Dog Name: "rover" Number: 9001)) (def r (Crate Tags: [nil 5]))`, -2},
	{`(struct Crate [(field Tags: ([]string) e:0) (field Next: (* Crate) e:1)]) (def d (Dog Name: "rover" Number: 9001)) (def c (Crate Tags: ["a"])) (hset c Next: d)`, -1},
	{`(struct Crate [(field Tags: ([]string) e:0) (field Next: (* Crate) e:1)]) (def d (Dog Name: "rover" Number: 9001)) (def c (Crate Tags: ["a"])) (hset c Next: (& d))`, -1},
	{`(struct Crate [(field Tags: ([]string) e:0) (field Next: (* Crate) e:1)]) (def d (Dog Name: "rover" Number: 9001)) (def c (Crate Tags: ["a"])) (def c2 (Crate Tags: [])) (hset c Next: (& c2)) (hset c Tags: []) (+ 0 d.Number)`, 1},
	// slices whose elements are declared structs, slices or pointers: the element type is part of the field's type
	{`(def d (Dog Name: "rover" Number: 9001)) (struct Wheel [(field R: int64 e:0)]) (struct Engine [(field P: int64 e:0)]) (struct Cart [(field Ws: ([]Wheel) e:0)]) (def c (Cart Ws: [(Wheel R: 1)])) (hset c Ws: [(Engine P: 9001)])`, -1},
	{`(struct Wheel [(field R: int64 e:0)]) (struct Engine [(field P: int64 e:0)]) (struct Cart [(field Ws: ([]Wheel) e:0)]) (def c (Cart Ws: [(Wheel R: 1)])) (hset c Ws: [(Wheel R: 9001)]) (+ 0 (hget (aget (hget c Ws:) 0) R:))`, 1},
	{`(struct Wheel [(field R: int64 e:0)]) (struct Engine [(field P: int64 e:0)]) (struct Cart [(field Ws: ([]Wheel) e:0)]) (def r (Cart Ws: [(Engine P: 9001)]))`, -2},
	{`(def d (Dog Name: "rover" Number: 9001)) (struct Wheel [(field R: int64 e:0)]) (struct Engine [(field P: int64 e:0)]) (struct Cart [(field Ws: ([]Wheel) e:0)]) (def c (Cart Ws: [])) {c.Ws = [(Engine P: 9001)]}`, -1},
	{`(def d (Dog Name: "rover" Number: 9001)) (struct Grid [(field Rows: ([]([]int64)) e:0)]) (def g (Grid Rows: [[1 2]])) (hset g Rows: [["a"]])`, -1},
	{`(struct Grid [(field Rows: ([]([]int64)) e:0)]) (def g (Grid Rows: [[1 2]])) (hset g Rows: [[9001 2] [3]]) (+ 0 (aget (aget (hget g Rows:) 0) 0))`, 1},
	{`(def d (Dog Name: "rover" Number: 9001)) (struct Grid [(field Rows: ([]([]int64)) e:0)]) (def g (Grid Rows: [[1 2]])) (hset g Rows: [1 2])`, -1},
	{`(def d (Dog Name: "rover" Number: 9001)) (struct Wheel [(field R: int64 e:0)]) (struct Engine [(field P: int64 e:0)]) (struct Cart [(field Ps: ([](* Wheel)) e:0)]) (def e (Engine P: 9001)) (def c (Cart Ps: [])) (hset c Ps: [(& e)])`, -1},
	{`(def d (Dog Name: "rover" Number: 9001)) (struct Wheel [(field R: int64 e:0)]) (struct Engine [(field P: int64 e:0)]) (struct Cart [(field Ws: ([]Wheel) e:0) (field Es: ([]Engine) e:1)]) (def c (Cart Ws: [(Wheel R: 1)] Es: [(Engine P: 2)])) (hset c Es: c.Ws)`, -1},
	// nil is accepted where the language says so
	{`(def d (Dog Name: "rover" Number: 9001)) (hset d Name: nil) (+ 0 d.Number)`, 1},
}

func vh_C17_writes() {
	vFormatOpaque(true)
	env := vStdEnvs(1)[0]
	k := vChoice("program", len(vC17Programs))
	h1, h2 := vSmallInt("h1"), vSmallInt("h2")
	forms := vT(env, vC17Decl+vC17Programs[k].src, h1, h2)
	var res Sexp
	var err error
	for _, f := range forms {
		var p bool
		res, err, p = vEval(env, f)
		vAssert(!p, "write-no-panic")
		if p {
			return
		}
		if err != nil {
			break
		}
	}
	switch vC17Programs[k].want {
	case 1:
		vAssert(err == nil, "well-typed-write-succeeds")
		if err == nil {
			vAssert(vSexpEq(res, h1), "well-typed-write-value")
		}
	case -2:
		vAssert(err != nil, "ill-typed-construction-is-rejected")
	default:
		vAssert(err != nil, "ill-typed-write-is-rejected")
		// the instance is unchanged: fields and types as declared
		back, err2, p2 := vEval(env, vT(env, `(+ 0 d.Number)`)[0])
		vAssert(!p2 && err2 == nil && vSexpEq(back, h1), "rejected-write-leaves-instance-unchanged")
		nm, err3, p3 := vEval(env, vT(env, `(concat "" d.Name)`)[0])
		if !p3 && err3 == nil {
			sv, isS := nm.(*SexpStr)
			vAssert(isS && sv.S == "rover", "rejected-write-leaves-other-fields")
		}
		obj, found := env.FindObject("d")
		if h, isH := obj.(*SexpHash); found && isH {
			for _, key := range h.KeyOrder {
				ks, isSym := key.(*SexpSymbol)
				vAssert(isSym && (ks.name == "Name" || ks.name == "Number" || ks.name == "Weight" || ks.name == "Good"), "only-declared-fields-present")
			}
		}
	}
	vReach("writes")
}

// vh_C17_matrix: every field x value kind x write route.  Accept iff the
// value's kind is the field's declared type; a rejected write leaves the
// instance unchanged.
func vh_C17_matrix() {
	vFormatOpaque(true)
	env := vStdEnvs(1)[0]
	fields := []string{"Name", "Number", "Weight", "Good", "NotDeclared"}
	ftypes := []int{1, 0, 2, 3, -1} // kind index that matches each field (-1: the field does not exist, nothing matches)
	fi := vChoice("field", len(fields))
	kind := vChoice("kind", 8)
	route := vChoice("route", 7)
	payload := vSmallInt("payload")
	var val Sexp
	switch kind {
	case 0:
		val = payload
	case 1:
		val = &SexpStr{S: "txt"}
	case 2:
		val = &SexpFloat{Val: 2.5}
	case 3:
		val = &SexpBool{Val: true}
	case 4:
		val = vA(env, payload)
	case 5:
		val = vL(vS(env, "hash"), vL(vS(env, "quote"), vS(env, "k")), payload)
	case 6:
		val = SexpNull
	default:
		val = vA(env) // the empty slice
	}
	if kind == 0 && fi == 2 {
		vDone() // int into a float64 field: conversion rule not stated
	}
	if kind >= 6 && ftypes[fi] >= 0 {
		vDone() // nil / [] into a declared field: "accepted where the language says so" - not asserted either way
	}
	for _, f := range vT(env, vC17Decl+`(def d (Dog Name: "rover" Number: 77 Weight: 1.5 Good: false))`) {
		if _, err, p := vEval(env, f); err != nil || p {
			vAssert(false, "matrix-setup")
			return
		}
	}
	s := func(n string) Sexp { return vS(env, n) }
	key := env.MakeSymbol(fields[fi])
	key.colonTail = true
	dot := env.MakeSymbol("d." + fields[fi])
	dot.isDot = true
	var form Sexp
	switch route {
	case 0:
		form = vL(s("hset"), s("d"), key, val)
	case 1:
		form = vL(s("set"), dot, val)
	case 2:
		form = vL(s("infix"), vA(env, dot, s("="), val))
	case 4: // the key spelled as a quoted symbol
		form = vL(s("hset"), s("d"), vL(s("quote"), s(fields[fi])), val)
	case 5: // ... inside a one-element array, which hset unwraps
		form = vL(s("hset"), s("d"), vA(env, vL(s("quote"), s(fields[fi]))), val)
	case 6: // infix indexing with the field symbol
		form = vL(s("infix"), vA(env, s("d"), vA(env, vL(s("quote"), s(fields[fi]))), s("="), val))
	default:
		form = vL(s("def"), s("d2"), vL(s("Dog"), key, val))
	}
	_, err, p := vEval(env, form)
	vAssert(!p, "matrix-no-panic")
	if p {
		return
	}
	if kind == ftypes[fi] {
		vAssert(err == nil, "matching-kind-is-accepted")
		vReach("accepted")
		return
	}
	vAssert(err != nil, "mismatched-kind-is-rejected")
	vReach("rejected")
	if route == 3 {
		return
	}
	back, err2, p2 := vEval(env, vT(env, `(+ 0 d.Number)`)[0])
	vAssert(!p2 && err2 == nil && vSexpEq(back, vI(77)), "rejected-write-leaves-instance-unchanged")
	obj, _ := env.FindObject("d")
	if h, isH := obj.(*SexpHash); isH {
		vAssert(h.NumKeys == 4 && len(h.KeyOrder) == 4, "rejected-write-adds-no-field")
	}
}
