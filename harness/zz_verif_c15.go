//go:build verif

package zygo

// C15 — macro templates expand by exact substitution.

type vC15Gen struct {
	env      *Zlisp
	deepUsed bool
	nested   bool
}

func (g *vC15Gen) elem(d int) Sexp {
	e := g.env
	n := 12
	if d > 0 && !g.deepUsed {
		// thorough tier: one element of the top sequence may itself be a
		// sequence (every choice of which one); all of them nested exceeds
		// the path cap
		n = 14
	}
	var k int
	if g.nested {
		// inside the nested sequence: the kinds that take part in substitution
		k = []int{0, 1, 2, 3, 4, 10, 11}[vChoice("nestedelem", 7)]
	} else {
		k = vChoice("elem", n)
	}
	switch k {
	case 5: // literal atoms of every other kind stay as written
		return SexpNull
	case 6:
		return vA(e)
	case 7:
		return &SexpStr{S: "str"}
	case 8:
		return &SexpBool{Val: true}
	case 9:
		return vL(vS(e, "quote"), vS(e, "q"))
	case 10: // a template inside the template: its unquotes are substituted too
		return vL(vS(e, "syntaxQuote"), vL(vS(e, "b"), vL(vS(e, "unquote"), vS(e, "v"))))
	case 11:
		return vL(vS(e, "syntaxQuote"), vA(e, vL(vS(e, "unquote-splicing"), vS(e, "l")), vSmallInt("lit")))
	case 12, 13:
		g.deepUsed = true
		g.nested = true
		x := g.seq(d-1, k == 13)
		g.nested = false
		return x
	case 0:
		return vSmallInt("lit")
	case 1:
		return vS(e, "s")
	case 2:
		return vL(vS(e, "unquote"), vS(e, "v"))
	case 3:
		return vL(vS(e, "unquote-splicing"), vS(e, "l"))
	default:
		return vL(vS(e, "unquote"), vL(vS(e, "+"), vS(e, "v"), vI(1)))
	}
}

func (g *vC15Gen) seq(d int, array bool) Sexp {
	n := 1 + vChoice("seqlen", 3)
	if g.nested {
		vAssume(n <= 2)
	}
	xs := make([]Sexp, n)
	for i := range xs {
		xs[i] = g.elem(d)
	}
	if array {
		return vA(g.env, xs...)
	}
	return vL(xs...)
}

// vC15Subst is the specification: the template with each unquoted
// expression replaced by its value and each splice by the elements of its
// list.
func vC15Subst(ev *vrEval, x Sexp) vrVal {
	isForm := func(p Sexp, head string) (Sexp, bool) {
		xs := vrListElems(p)
		if len(xs) == 2 {
			if name, ok := vrSymName(xs[0]); ok && name == head {
				return xs[1], true
			}
		}
		return nil, false
	}
	elems := func(xs []Sexp) []vrVal {
		var out []vrVal
		for _, el := range xs {
			if inner, ok := isForm(el, "unquote-splicing"); ok {
				v := ev.eval(inner, ev.global)
				out = append(out, v.elems...)
				continue
			}
			out = append(out, vC15Subst(ev, el))
		}
		return out
	}
	switch t := x.(type) {
	case *SexpInt:
		return vrVal{k: vrInt, i: t.Val}
	case *SexpSymbol:
		return vrVal{k: vrSym, s: t.name}
	case *SexpStr:
		return vrVal{k: vrStr, s: t.S}
	case *SexpBool:
		return vrVal{k: vrBool, b: t.Val}
	case *SexpSentinel:
		return vrVal{}
	case *SexpPair:
		if inner, ok := isForm(t, "unquote"); ok {
			return ev.eval(inner, ev.global)
		}
		out := elems(vrListElems(t))
		if len(out) == 0 {
			return vrVal{}
		}
		return vrVal{k: vrList, elems: out}
	case *SexpArray:
		return vrVal{k: vrArr, elems: elems(t.Val)}
	}
	vrFail("template")
	return vrVal{}
}

func vC15Bindings(env *Zlisp) []Sexp {
	k := vChoice("splicelen", 3)
	items := []Sexp{vS(env, "list")}
	for i := 0; i < k; i++ {
		items = append(items, vSmallInt("li"))
	}
	return []Sexp{
		vL(vS(env, "def"), vS(env, "v"), vSmallInt("v")),
		vL(vS(env, "def"), vS(env, "l"), vL(items...)),
	}
}

// vh_C15_templates: ^template evaluated by the real compiler/VM equals the
// independent substitution.
func vh_C15_templates() {
	vFormatOpaque(true)
	env := vEvalEnv(0)
	g := &vC15Gen{env: env}
	d := 0
	if vTier() == 1 {
		d = 1
	}
	binds := vC15Bindings(env)
	tmpl := g.seq(d, vChoice("toparray", 2) == 1)
	ref := vrNewEval()
	if _, ok := ref.run(binds); !ok {
		vDone()
	}
	want := vC15Subst(ref, tmpl)
	for _, b := range binds {
		if _, err, p := vEval(env, b); err != nil || p {
			vAssert(false, "template-setup")
			return
		}
	}
	depthBefore := env.datastack.Size()
	res, err, p := vEval(env, vL(vS(env, "syntaxQuote"), tmpl))
	vAssert(!p, "template-no-panic")
	if p {
		return
	}
	vAssert(err == nil, "template-no-error")
	if err != nil {
		return
	}
	vAssert(vrMatch(res, want), "template-exact-substitution")
	vAssert(env.datastack.Size() == depthBefore, "template-leaves-stack-clean")
	vReach("template")
}

// macros whose bodies are templates, with the expansion written by hand
var vC15Macros = []struct{ def, call, byHand, prelude string }{
	{`(defmac m [a] ^(+ ~a 1))`, `(m (t 9001))`, `(+ (t 9001) 1)`, ``},
	{`(defmac m [a b] ^(begin (t ~a) (t ~b) (- ~a ~b)))`, `(m 9001 9002)`, `(begin (t 9001) (t 9002) (- 9001 9002))`, ``},
	{`(defmac m [& body] ^(begin ~@body))`, `(m (t 9001) (t 9002))`, `(begin (t 9001) (t 9002))`, ``},
	{`(defmac m [c & body] ^(cond ~c (begin ~@body) 0))`, `(m (< 9001 9002) (t 9001) (t 9002))`, `(cond (< 9001 9002) (begin (t 9001) (t 9002)) 0)`, ``},
	{`(defmac m [v e] ^(let [~v ~e] (t ~v)))`, `(m z (+ 9001 1))`, `(let [z (+ 9001 1)] (t z))`, ``},
	{`(defmac m [a] ^[~a (t ~a) [~a]])`, `(m 9001)`, `[9001 (t 9001) [9001]]`, ``},
	{`(defmac inner [a] ^(t ~a)) (defmac m [a] ^(+ (inner ~a) (inner 9002)))`, `(m 9001)`, `(+ (t 9001) (t 9002))`, ``},
	// expansions that contain control flow: they are compiled in the caller's
	// context (open scopes, enclosing loop, tail position)
	{`(defmac m [c] ^(cond ~c (break) (t 9002)))`, `(m (> (+ i y) 9001))`, `(cond (> (+ i y) 9001) (break) (t 9002))`, `(def i 50) (def y 60)`},
	{`(defmac m [c] ^(cond ~c (continue) (t (+ i y))))`, `(m (== (+ i y) 9001))`, `(cond (== (+ i y) 9001) (continue) (t (+ i y)))`, `(def i 50) (def y 60)`},
	{`(defmac m [& body] ^(let [w 1] ~@body))`, `(m (cond (> i 9001) (break) (t i)))`, `(let [w 1] (cond (> i 9001) (break) (t i)))`, `(def i 50) (def y 60)`},
	{`(defmac m [& body] ^(~@body))`, `(m)`, `()`, ``},
	{`(defmac m [] ^())`, `(m)`, `()`, ``},
	{`(defmac defsucc [name n] ^(defmac ~name [] ^(+ ~n 1))) (defsucc m 9001)`, `(m)`, `(+ 9001 1)`, ``},
	{`(defmac m [n acc] ^(g ~n ~acc))`, `(m (- n 1) (+ acc (t n)))`, `(g (- n 1) (+ acc (t n)))`, `(defn g [n acc] acc) (def n 1) (def acc 5)`},
}

var vC15Sites = []string{
	`CALL`,                                                   // top level
	`(defn f [] CALL) (f)`,                                   // inside a function body
	`(def r 0) (for [(def i 0) (< i 2) (set i (+ i 1))] (set r CALL)) r`, // inside a loop body
	`(let [q 9003] (+ q CALL))`,                              // inside a let, as an operand
	`(defn f [] (cond true CALL 0)) (f)`,                     // tail position inside a function
	// inside an extra scope inside a loop: a break/continue in the expansion pops that scope too
	`(def i 100) (def r []) (for [(def i 0) (< i 4) (set i (+ i 1))] (let [y (* i 2)] CALL (set r (append r y)))) (list i r)`,
	`(def i 100) (def r []) (for [(def i 0) (< i 4) (set i (+ i 1))] (newScope (def y (* i 3)) CALL (set r (append r y)))) (list i r)`,
	`(def i 100) (def r []) (for [(def k 0) (< k 2) (set k (+ k 1))] (for [(def i 0) (< i 3) (set i (+ i 1))] (let [y k] CALL (set r (append r (+ (* 10 k) i)))))) (list i r)`,
	// the value of the call is consumed: right side of def and set, let binding, cond branch, last form of a function used by a caller
	`(def r CALL) (list r 1)`,
	`(let [r CALL] (list r 2))`,
	`(defn h [] CALL) (list 1 (h) 2)`,
	`(cond true CALL 5)`,
	// the expansion is a self tail call inside a let inside the function
	`(defn g [n acc] (let [y 1] (cond (<= n 0) acc (letseq [z y] CALL)))) (g 3 0)`,
}

// vh_C15_macros: calling a macro equals writing the form its body returns
// by hand, at every call site; the expansion leaves the caller at rest.
func vh_C15_macros() {
	vFormatOpaque(true)
	real := vEvalEnv(0)
	hand := vEvalEnv(1)
	mk := vChoice("macro", len(vC15Macros))
	sk := vChoice("site", len(vC15Sites))
	h := []Sexp{vSmallInt("h1"), vSmallInt("h2"), vSmallInt("h3")}
	m := vC15Macros[mk]
	site := vC15Sites[sk]
	withMacro := m.prelude + " " + m.def + " " + vReplace(site, "CALL", m.call)
	byHand := m.prelude + " " + vReplace(site, "CALL", m.byHand)
	var r1, r2 Sexp
	var e1, e2 error
	var p1, p2 bool
	for _, f := range vT(real, withMacro, h...) {
		r1, e1, p1 = vEval(real, f)
		if e1 != nil || p1 {
			break
		}
	}
	logMacro := append([]int64(nil), vTraceLog...)
	vTraceLog = nil
	for _, f := range vT(hand, byHand, h...) {
		r2, e2, p2 = vEval(hand, f)
		if e2 != nil || p2 {
			break
		}
	}
	vAssert(!p1 && !p2, "macro-no-panic")
	if p1 || p2 {
		return
	}
	vAssert((e1 == nil) == (e2 == nil), "macro-same-errorness")
	if e1 != nil || e2 != nil {
		return
	}
	vAssert(vSexpEq(r1, r2), "macro-equals-hand-expansion")
	vAssert(len(logMacro) == len(vTraceLog), "macro-same-effects")
	if len(logMacro) == len(vTraceLog) {
		for i := range logMacro {
			vAssert(logMacro[i] == vTraceLog[i], "macro-same-effect-order")
		}
	}
	vC04AtRest(real, "macro-caller")
	vReach("macro")
}

func vReplace(s, old, new string) string {
	out := ""
	for i := 0; i < len(s); {
		if i+len(old) <= len(s) && s[i:i+len(old)] == old {
			out += new
			i += len(old)
		} else {
			out += string(s[i])
			i++
		}
	}
	return out
}

// macros whose body computes the expansion from interpreter state
var vC15Stateful = []struct{ def, change, call, hand0, hand1 string }{
	{`(def mode 0) (defmac m [a] (cond (== mode 0) ^(+ ~a 1) ^(* ~a 2)))`, `(set mode 1)`, `(m 9001)`, `(+ ARG 1)`, `(* ARG 2)`},
	{`(def tmpl (quote (- ARGSYM 3))) (defmac m [a] (list (first tmpl) a (first (rest (rest tmpl)))))`, `(set tmpl (quote (+ ARGSYM 4)))`, `(m 9001)`, `(- ARG 3)`, `(+ ARG 4)`},
	{`(def cnt 0) (defmac m [a] (set cnt (+ cnt 1)) ^(+ ~a ~cnt))`, `(def unused 0)`, `(m 9001)`, `(+ ARG 1)`, `(+ ARG 2)`},
	// one argument form spliced into two places of a template: two calls of the inner macro, as in the form written by hand
	{`(def cnt 0) (defmac tick [a] (set cnt (+ cnt 1)) ^(+ ~a ~cnt)) (defmac m [x] ^(- (* 100 ~x) ~x))`, `(def unused 0)`, `(m (tick 9001))`, `(- (* 100 (+ ARG 1)) (+ ARG 2))`, `(- (* 100 (+ ARG 3)) (+ ARG 4))`},
	{`(def cnt 0) (defmac tick [a] (set cnt (+ cnt 1)) ^(+ ~a ~cnt)) (defmac m [x] ^(let [u ~x] (+ (* 100 u) ~x)))`, `(def unused 0)`, `(m (tick 9001))`, `(let [u (+ ARG 1)] (+ (* 100 u) (+ ARG 2)))`, `(let [u (+ ARG 3)] (+ (* 100 u) (+ ARG 4)))`},
}

var vC15StatefulSites = []string{
	`CALL`,
	`(list 1 CALL)`,
	`(let [q 1] (+ q CALL))`,
	`(+ (t CALL) 0)`,
	// the same definition form evaluated again: the function is compiled anew from the same form objects
	`(defn g [] (+ 0 CALL)) (g)`,
	`(defn g [] (list (t CALL))) (g)`,
	`(defn g [u] (let [w u] (t (+ w CALL)))) (g 1)`,
	`(def g (fn [] (cond true (t CALL) 0))) (g)`,
}

// vh_C15_stateful: a macro body is ordinary code; evaluating the very same
// call form again after the state it consults has changed expands it again:
// each evaluation equals the evaluation of the form the body returns then.
func vh_C15_stateful() {
	vFormatOpaque(true)
	real := vEvalEnv(0)
	hand := vEvalEnv(1)
	mk := vChoice("macro", len(vC15Stateful))
	sk := vChoice("site", len(vC15StatefulSites))
	h := vSmallInt("h1")
	m := vC15Stateful[mk]
	site := vC15StatefulSites[sk]
	run := func(env *Zlisp, text string) (Sexp, bool) {
		var r Sexp
		for _, f := range vT(env, text, h) {
			var err error
			var p bool
			r, err, p = vEval(env, f)
			if err != nil || p {
				return nil, false
			}
		}
		return r, true
	}
	if _, ok := run(real, m.def); !ok {
		vAssert(false, "stateful-macro-defines")
		return
	}
	call := vT(real, vReplace(site, "CALL", m.call), h)
	evalAll := func() (r Sexp, err error, p bool) {
		for _, f := range call {
			r, err, p = vEval(real, f)
			if err != nil || p {
				return
			}
		}
		return
	}
	r1, e1, p1 := evalAll()
	_, okc := run(real, m.change)
	r2, e2, p2 := evalAll() // the same form objects, evaluated again
	vAssert(okc && !p1 && !p2 && e1 == nil && e2 == nil, "stateful-macro-calls-succeed")
	if !okc || p1 || p2 || e1 != nil || e2 != nil {
		return
	}
	w1, ok1 := run(hand, vReplace(site, "CALL", vReplace(m.hand0, "ARG", "9001")))
	w2, ok2 := run(hand, vReplace(site, "CALL", vReplace(m.hand1, "ARG", "9001")))
	vAssert(ok1 && ok2, "hand-expansions-evaluate")
	if !ok1 || !ok2 {
		return
	}
	vAssert(vSexpEq(r1, w1), "first-evaluation-equals-the-form-the-body-returned")
	vAssert(vSexpEq(r2, w2), "later-evaluation-of-the-same-call-form-equals-the-form-the-body-returns-then")
	vC04AtRest(real, "stateful-macro-caller")
	vReach("stateful")
}
