//go:build verif

package zygo

// Texts that break off at every possible point.  The first text handed to an
// interpreter is a proper prefix of one of the feature texts (every cut
// position: inside strings, comments, operators, right after an opening
// bracket, at the hash-vs-infix look-ahead of '{', ...); whatever it answers -
// a value, "more input needed" or an error - the interpreter must then behave
// like one that never saw it.

var vPrefixTexts = []string{
	`{ "a": 1 "b": [2 3] }`, "{ `a`: 1 }", `{ a: 1 b: 2 }`, `{ /* note */ a: 1 }`, `{ a = 1; b = a + 2 }`, `(def s "x\ty\"z")`,
	`(a \ (b c))`, `[1, 2 ,3]`, "(f `raw ) text` 2)", `(a /* c ( */ b)`, "(a // c (\n b)", `(for [(def i 0) (< i 3) (set i (+ i 1))] (t i))`,
	`'a' '\n' '\x41'`, `^(a ~b ~@c)`, `(fn [a & b] {a + 1})`, `x.y.z:=1 `, `-1.5e-3 0x1F 5ULL `, `(quote ~@x)`,
}

func vPrefixFirstText() string {
	t := vPrefixTexts[vChoice("ptext", len(vPrefixTexts))]
	cut := 1 + vChoice("pcut", len(t)-1)
	vAssume(t[cut]&0xC0 != 0x80)
	return t[:cut]
}

// vh_C01_prefixes: no broken-off text, and nothing evaluated after it, lets a
// Go panic escape.
func vh_C01_prefixes() {
	vFormatOpaque(true)
	vBudgetOK()
	env := vStdEnvs(1)[0]
	first := vPrefixFirstText()
	vSetStepBudget(300000)
	_, _, p := vEvalString(env, first)
	vAssert(!p, "no-panic-escapes-broken-off-text")
	if p {
		return
	}
	for _, txt := range []string{`(+ 1 2)`, `{ a = 1 }`, ``, `"s"`} {
		_, _, p2 := vEvalString(env, txt)
		vAssert(!p2, "no-panic-in-evaluation-after-broken-off-text")
	}
	func() {
		defer func() {
			if r := recover(); r != nil {
				switch r.(type) {
				case vAssumeFailed, vDoneSignal:
					panic(r)
				}
				vAssert(false, "no-panic-escapes-clear-after-broken-off-text")
			}
		}()
		env.Clear()
	}()
	vReach("prefixes")
}

// vh_C05_prefixes: a text that fails to parse or breaks off is reported as
// an error, leaves the interpreter at rest, and every later evaluation
// behaves as in a twin interpreter that never saw it.
func vh_C05_prefixes() {
	vFormatOpaque(true)
	env := vEvalEnv(0)
	twin := vEvalEnvs[1]
	h := vSmallInt("h")
	for _, e := range []*Zlisp{env, twin} {
		if _, err, p := vEval(e, vL(vS(e, "def"), vS(e, "a"), h)); err != nil || p {
			vAssert(false, "prefixes-setup")
			return
		}
	}
	first := vPrefixFirstText()
	_, err, p := vEvalString(env, first)
	if p {
		vDone() // C01
	}
	if err == nil {
		vDone() // the prefix happened to be a complete text that evaluates: not a failure
	}
	vC04AtRest(env, "after-broken-off-text")
	for _, txt := range []string{`(def d 10) (+ d a)`, `b`, `{ a + 1 }`, `"s"`, `[1, 2]`, `(quote (p \ q))`, ``} {
		r1, e1, p1 := vEvalString(env, txt)
		r2, e2, p2 := vEvalString(twin, txt)
		vAssert(!p1 && !p2, "followup-no-panic")
		if p1 || p2 {
			return
		}
		vAssert((e1 == nil) == (e2 == nil), "followup-same-errorness-as-twin")
		if e1 == nil && e2 == nil {
			vAssert(vSexpEq(r1, r2), "followup-same-value-as-twin")
		}
	}
	vReach("prefixes")
}

// vh_C13_prefixes: what an interpreter failed to parse earlier never changes
// how a later text is read: after any broken-off first text, each second
// text parses as in a fresh parser.
func vh_C13_prefixes() {
	vFormatOpaque(true)
	es := vEnvs(2)
	fresh, used := es[0], es[1]
	first := vPrefixFirstText()
	_, _, p1 := vParse(used, first)
	if p1 {
		vDone()
	}
	seconds := append(append([]string{}, vC13Seconds...), `{ a: 1 }`, `[1, 2]`, `(a \ b)`, `"s t"`)
	second := seconds[vChoice("second", len(seconds))]
	a, errA, pA := vParse(fresh, second)
	b, errB, pB := vParse(used, second)
	vAssert(pA == pB, "same-panic-behaviour")
	if pA || pB {
		return
	}
	vAssert(vErrKind(errA) == vErrKind(errB), "same-error-kind")
	vAssert(vSexpListEq(a, b), "same-expressions")
	vReach("prefixes")
}
