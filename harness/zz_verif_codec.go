//go:build verif

package zygo

// The codec boundary.  github.com/ugorji/go/codec is reflection/unsafe code
// the engine cannot execute; under the engine its four entry points that
// zygo uses (NewDecoderBytes/Decode, NewEncoder/Encode) dispatch to the two
// functions below, which implement the documented behaviour of the handles
// as zygo configures them (maps decode to map[string]interface{}, integers
// to int64, canonical = sorted map keys) for plain data: nil, bool, int64,
// uint64, float64, string, []byte, []interface{}, map[string]interface{}.
// Anything else handed to the encoder (a Go struct, a pointer to an
// interpreter object) is what the real codec would serialise by reflection
// as some struct - never the data the script meant - and is recorded in
// vCodecForeign.  Natively these functions are not used: a replay runs the
// real codec.

import (
	"errors"
	"math"
	"sort"
)

var vCodecForeign bool

func vCodecDecode(data []byte, isJSON bool) (interface{}, error) {
	if isJSON {
		j, ok := vjParse(string(data))
		if !ok {
			return nil, errors.New("verif codec model: malformed JSON")
		}
		return vjToGoNum(j), nil
	}
	d := &vMsgpReader{b: data}
	v := d.value(0)
	if d.bad || d.pos != len(data) {
		return nil, errors.New("verif codec model: malformed msgpack")
	}
	return v, nil
}

func vCodecEncode(v interface{}, isJSON bool) ([]byte, error) {
	if isJSON {
		return nil, errors.New("verif codec model: JSON encoding through the codec is not modelled")
	}
	return vMsgpAppend(nil, v), nil
}

// vjToGoNum: as vjToGo, with fractions and exponents as float64
func vjToGoNum(j vjVal) interface{} {
	switch j.k {
	case vjArr:
		out := make([]interface{}, len(j.elems))
		for i := range j.elems {
			out[i] = vjToGoNum(j.elems[i])
		}
		return out
	case vjObj:
		m := map[string]interface{}{}
		for i, k := range j.keys {
			m[k] = vjToGoNum(j.elems[i])
		}
		return m
	}
	return vjToGo(j)
}

func vMsgpAppend(b []byte, v interface{}) []byte {
	be := func(b []byte, u uint64, n int) []byte {
		for i := n - 1; i >= 0; i-- {
			b = append(b, byte(u>>(8*uint(i))))
		}
		return b
	}
	switch t := v.(type) {
	case nil:
		return append(b, 0xc0)
	case bool:
		if t {
			return append(b, 0xc3)
		}
		return append(b, 0xc2)
	case int64:
		return be(append(b, 0xd3), uint64(t), 8)
	case int:
		return be(append(b, 0xd3), uint64(int64(t)), 8)
	case uint64:
		return be(append(b, 0xcf), t, 8)
	case float64:
		return be(append(b, 0xcb), math.Float64bits(t), 8)
	case string:
		b = be(append(b, 0xdb), uint64(len(t)), 4)
		return append(b, t...)
	case []byte:
		b = be(append(b, 0xc6), uint64(len(t)), 4)
		return append(b, t...)
	case []interface{}:
		b = be(append(b, 0xdd), uint64(len(t)), 4)
		for _, e := range t {
			b = vMsgpAppend(b, e)
		}
		return b
	case map[string]interface{}:
		keys := make([]string, 0, len(t))
		for k := range t {
			keys = append(keys, k)
		}
		sort.Strings(keys) // Canonical
		b = be(append(b, 0xdf), uint64(len(keys)), 4)
		for _, k := range keys {
			b = vMsgpAppend(b, k)
			b = vMsgpAppend(b, t[k])
		}
		return b
	}
	vCodecForeign = true
	return append(b, 0xc1) // never used by msgpack: stands for "some reflected struct"
}

type vMsgpReader struct {
	b   []byte
	pos int
	bad bool
}

func (r *vMsgpReader) u(n int) uint64 {
	if r.pos+n > len(r.b) {
		r.bad = true
		return 0
	}
	var u uint64
	for i := 0; i < n; i++ {
		u = u<<8 | uint64(r.b[r.pos+i])
	}
	r.pos += n
	return u
}

func (r *vMsgpReader) value(depth int) interface{} {
	if r.bad || depth > 8 || r.pos >= len(r.b) {
		r.bad = true
		return nil
	}
	c := r.b[r.pos]
	r.pos++
	switch c {
	case 0xc0:
		return nil
	case 0xc2:
		return false
	case 0xc3:
		return true
	case 0xd3:
		return int64(r.u(8))
	case 0xcf:
		return r.u(8)
	case 0xcb:
		return math.Float64frombits(r.u(8))
	case 0xdb, 0xc6:
		n := int(r.u(4))
		if r.bad || r.pos+n > len(r.b) {
			r.bad = true
			return nil
		}
		s := r.b[r.pos : r.pos+n]
		r.pos += n
		if c == 0xdb {
			return string(s)
		}
		return string(s) // RawToString
	case 0xdd:
		n := int(r.u(4))
		out := make([]interface{}, 0, n)
		for i := 0; i < n && !r.bad; i++ {
			out = append(out, r.value(depth+1))
		}
		return out
	case 0xdf:
		n := int(r.u(4))
		m := map[string]interface{}{}
		for i := 0; i < n && !r.bad; i++ {
			k, isS := r.value(depth + 1).(string)
			if !isS {
				r.bad = true
				return nil
			}
			m[k] = r.value(depth + 1)
		}
		return m
	case 0xc1:
		// the stand-in for a reflected struct reads back as a one-field map
		return map[string]interface{}{"Val": int64(0)}
	}
	r.bad = true
	return nil
}

// vh_C11_msgpack: (unmsgpack (msgpack v)) equals v: zygo's own legs of the
// trip (the JSON text, the Go intermediary handed to the encoder, the
// decoded Go value turned back into data, key order and type names) run for
// real; the codec itself is the model above.  The intermediary must be plain
// data.
func vh_C11_msgpack() {
	env := vEnvs(1)[0]
	sym := func(n string) Sexp { return env.MakeSymbol(n) }
	str := func() Sexp { return vC11StrBounded("r") }
	i := vInt64("i")
	vAssume(i > -1000 && i < 1000) // three digits: the value travels as decimal text and as eight big-endian bytes
	num := &SexpInt{Val: i}
	var v Sexp
	switch vChoice("shape", 10) {
	case 0:
		v = str()
	case 1:
		v = num
	case 2:
		v = &SexpBool{Val: vBool("b")}
	case 3:
		v = SexpNull
	case 4:
		v = &SexpArray{Val: []Sexp{str(), num, SexpNull, &SexpBool{Val: true}}, Env: env}
	case 5:
		h, _ := MakeHash([]Sexp{sym("b"), str(), sym("a"), num}, "hash", env)
		v = h
	case 6:
		h, _ := MakeHash([]Sexp{sym("z"), SexpNull, sym("a"), &SexpArray{Val: []Sexp{}, Env: env}}, "hash", env)
		v = h
	case 7:
		inner, _ := MakeHash([]Sexp{sym("x"), num, sym("n"), SexpNull}, "hash", env)
		h, _ := MakeHash([]Sexp{sym("in"), inner, sym("arr"), &SexpArray{Val: []Sexp{SexpNull, num}, Env: env}}, "hash", env)
		v = h
	case 8:
		h, _ := MakeHash([]Sexp{sym("zone"), num, sym("name"), str(), sym("active"), &SexpBool{Val: false}}, "rec", env)
		v = h
	default:
		v = &SexpArray{Val: []Sexp{&SexpArray{Val: []Sexp{num}, Env: env}, SexpNull}, Env: env}
	}
	vCodecForeign = false
	var back Sexp
	var err error
	panicked := false
	func() {
		defer func() {
			if r := recover(); r != nil {
				switch r.(type) {
				case vAssumeFailed, vDoneSignal:
					panic(r)
				}
				panicked = true
			}
		}()
		by, _ := SexpToMsgpack(v)
		back, err = MsgpackToSexp(by, env)
	}()
	vAssert(!panicked, "msgpack-roundtrip-no-panic")
	if panicked {
		return
	}
	vAssert(err == nil, "msgpack-decodes")
	if err != nil {
		return
	}
	vAssert(vC11Same(v, back), "msgpack-roundtrip-equal")
	// (only the engine's codec model can see this; natively the real codec
	// serialises such a value by reflection and the comparison above fails)
	vAssert(!vCodecForeign, "msgpack-intermediate-is-plain-data")
	vReach("msgpack")
}
