//go:build verif

package zygo

// C06 — infix blocks mean what the precedence table says.

// ---- P: the algorithm, for all tables ----

type vC06Op struct {
	name  string
	bp    int
	right bool
}

// vC06Ref: the independent specification of operator-precedence parsing:
// the root of an operand/operator sequence is its weakest operator
// (rightmost among equals if left-associative, leftmost if
// right-associative); both sides are parsed the same way.
func vC06Ref(env *Zlisp, operands []Sexp, ops []vC06Op) Sexp {
	if len(ops) == 0 {
		return operands[0]
	}
	root := 0
	for i := 1; i < len(ops); i++ {
		if ops[i].bp < ops[root].bp || (ops[i].bp == ops[root].bp && !ops[i].right) {
			root = i
		}
	}
	left := vC06Ref(env, operands[:root+1], ops[:root])
	right := vC06Ref(env, operands[root+1:], ops[root+1:])
	return MakeList([]Sexp{env.MakeSymbol(ops[root].name), left, right})
}

// vh_C06_algorithm: operators with *symbolic* binding powers and case-split
// associativity; the tree returned by the real Pratt loop equals the
// specification for every table.
func vh_C06_algorithm() {
	env := vEnvs(1)[0]
	nops := 2
	if vTier() == 1 {
		nops = 3
	}
	names := []string{"op1", "op2", "op3"}
	ops := make([]vC06Op, nops)
	for i := range ops {
		bp := vInt("bp")
		vAssume(bp >= 1 && bp < 1<<20)
		right := vChoice("rightassoc", 2) == 1
		ops[i] = vC06Op{names[i], bp, right}
		if right {
			env.Infixr(names[i], bp)
		} else {
			env.Infix(names[i], bp)
		}
	}
	// equal powers with different associativity have no defined meaning
	for i := range ops {
		for j := 0; j < i; j++ {
			vAssume(ops[i].bp != ops[j].bp || ops[i].right == ops[j].right)
		}
	}
	operands := []Sexp{env.MakeSymbol("a"), env.MakeSymbol("b"), env.MakeSymbol("c"), env.MakeSymbol("d")}[:nops+1]
	var stream []Sexp
	for i := 0; i < nops; i++ {
		stream = append(stream, operands[i], env.MakeSymbol(names[i]))
	}
	stream = append(stream, operands[nops])
	xs, err := InfixExpandArray(env, &SexpArray{Val: stream, Env: env})
	vAssert(err == nil && len(xs) == 1, "algorithm-parses")
	if err != nil || len(xs) != 1 {
		return
	}
	want := vC06Ref(env, operands, ops)
	vAssert(vSexpEq(xs[0], want), "algorithm-tree-matches-precedence")
	vReach("algorithm")
}

// ---- T: the documented table ----

// documented levels: assignment (lowest, right), or/and, comparisons,
// + -, * / mod, ** (right)
var vC06Table = []struct {
	op    string
	level int
	right bool
	head  string
}{
	{"=", 10, true, "set"}, {"+=", 10, true, "+="}, {"-=", 10, true, "-="},
	{"and", 30, true, "and"}, {"or", 30, true, "or"},
	{"==", 40, false, "=="}, {"!=", 40, false, "!="}, {"<", 40, false, "<"}, {"<=", 40, false, "<="}, {">", 40, false, ">"}, {">=", 40, false, ">="},
	{"+", 50, false, "+"}, {"-", 50, false, "-"},
	{"*", 60, false, "*"}, {"/", 60, false, "/"}, {"mod", 60, false, "mod"},
	{"**", 65, true, "**"},
}

func vh_C06_table() {
	env := vStdEnvs(1)[0]
	i := vChoice("op1", len(vC06Table))
	j := vChoice("op2", len(vC06Table))
	o1, o2 := vC06Table[i], vC06Table[j]
	if o1.level == o2.level && (o1.level == 30 || o1.right != o2.right) {
		vDone() // associativity of and/or among themselves is not documented
	}
	s := func(n string) Sexp { return env.MakeSymbol(n) }
	stream := []Sexp{s("a"), s(o1.op), s("b"), s(o2.op), s("c")}
	xs, err := InfixExpandArray(env, &SexpArray{Val: stream, Env: env})
	vAssert(err == nil && len(xs) == 1, "table-parses")
	if err != nil || len(xs) != 1 {
		return
	}
	var want Sexp
	rootIsFirst := o1.level < o2.level || (o1.level == o2.level && o1.right)
	if rootIsFirst {
		want = MakeList([]Sexp{s(o1.head), s("a"), MakeList([]Sexp{s(o2.head), s("b"), s("c")})})
	} else {
		want = MakeList([]Sexp{s(o2.head), MakeList([]Sexp{s(o1.head), s("a"), s("b")}), s("c")})
	}
	vAssert(vSexpEq(xs[0], want), "table-tree-matches-documented-precedence")
	vReach("table")
}

// ---- E: meaning ----

var vC06Arith = []string{"+", "-", "*", "<", "<=", "==", "and", "or"}

// vh_C06_meaning: {a op b op' c} evaluates to the same value as the prefix
// form the documented precedence determines, for symbolic operands, and a
// block's value is that of its last statement.
func vh_C06_meaning() {
	vFormatOpaque(true)
	env := vStdEnvs(1)[0]
	lv := func(op string) (int, bool) {
		for _, t := range vC06Table {
			if t.op == op {
				return t.level, t.right
			}
		}
		return 0, false
	}
	o1 := vC06Arith[vChoice("op1", len(vC06Arith))]
	o2 := vC06Arith[vChoice("op2", len(vC06Arith))]
	l1, r1 := lv(o1)
	l2, _ := lv(o2)
	if l1 == l2 && l1 == 30 {
		vDone()
	}
	// comparisons yield booleans: only combine them where the types fit
	a, b, c := vSmallInt("a"), vSmallInt("b"), vSmallInt("c")
	s := func(n string) Sexp { return env.MakeSymbol(n) }
	block := vL(s("infix"), vA(env, a, s(o1), b, s(o2), c))
	var prefix Sexp
	if l1 < l2 || (l1 == l2 && r1) {
		prefix = vL(s(o1), a, vL(s(o2), b, c))
	} else {
		prefix = vL(s(o2), vL(s(o1), a, b), c)
	}
	r1v, e1, p1 := vEval(env, block)
	r2v, e2, p2 := vEval(env, prefix)
	vAssert(!p1 && !p2, "meaning-no-panic")
	if p1 || p2 {
		return
	}
	vAssert((e1 == nil) == (e2 == nil), "meaning-same-errorness")
	if e1 != nil || e2 != nil {
		return
	}
	vAssert(vSexpEq(r1v, r2v), "meaning-infix-equals-prefix")
	// statements in order, value of the last
	seq := vL(s("infix"), vA(env, vL(s("t"), a), &SexpSemicolon{}, vL(s("t"), b), &SexpSemicolon{}, c))
	r3, e3, p3 := vEval(env, seq)
	vAssert(!p3 && e3 == nil, "block-evaluates")
	if !p3 && e3 == nil {
		vAssert(vSexpEq(r3, c), "block-value-is-last-statement")
		vAssert(len(vTraceLog) == 2, "block-statements-all-run")
		if len(vTraceLog) == 2 {
			vAssert(vTraceLog[0] == a.(*SexpInt).Val && vTraceLog[1] == b.(*SexpInt).Val, "block-statements-in-order")
		}
	}
	vReach("meaning")
}
