//go:build verif

package zygo

// C06 — infix blocks mean what the precedence table says.

// ---- P: the algorithm, for all tables ----

type vC06Op struct {
	name  string
	bp    int
	right bool
}

// vC06Ref: the independent specification of operator-precedence parsing:
// the root of an operand/operator sequence is its weakest operator
// (rightmost among equals if left-associative, leftmost if
// right-associative); both sides are parsed the same way.
func vC06Ref(env *Zlisp, operands []Sexp, ops []vC06Op) Sexp {
	if len(ops) == 0 {
		return operands[0]
	}
	root := 0
	for i := 1; i < len(ops); i++ {
		if ops[i].bp < ops[root].bp || (ops[i].bp == ops[root].bp && !ops[i].right) {
			root = i
		}
	}
	left := vC06Ref(env, operands[:root+1], ops[:root])
	right := vC06Ref(env, operands[root+1:], ops[root+1:])
	return MakeList([]Sexp{env.MakeSymbol(ops[root].name), left, right})
}

// vh_C06_algorithm: operators with *symbolic* binding powers and case-split
// associativity; the tree returned by the real Pratt loop equals the
// specification for every table.
func vh_C06_algorithm() {
	env := vEnvs(1)[0]
	nops := 2
	if vTier() == 1 {
		nops = 3
	}
	names := []string{"op1", "op2", "op3"}
	ops := make([]vC06Op, nops)
	for i := range ops {
		bp := vInt("bp")
		vAssume(bp >= 1 && bp < 1<<20)
		right := vChoice("rightassoc", 2) == 1
		ops[i] = vC06Op{names[i], bp, right}
		if right {
			env.Infixr(names[i], bp)
		} else {
			env.Infix(names[i], bp)
		}
	}
	// equal powers with different associativity have no defined meaning
	for i := range ops {
		for j := 0; j < i; j++ {
			vAssume(ops[i].bp != ops[j].bp || ops[i].right == ops[j].right)
		}
	}
	operands := []Sexp{env.MakeSymbol("a"), env.MakeSymbol("b"), env.MakeSymbol("c"), env.MakeSymbol("d")}[:nops+1]
	var stream []Sexp
	for i := 0; i < nops; i++ {
		stream = append(stream, operands[i], env.MakeSymbol(names[i]))
	}
	stream = append(stream, operands[nops])
	xs, err := InfixExpandArray(env, &SexpArray{Val: stream, Env: env})
	vAssert(err == nil && len(xs) == 1, "algorithm-parses")
	if err != nil || len(xs) != 1 {
		return
	}
	want := vC06Ref(env, operands, ops)
	vAssert(vSexpEq(xs[0], want), "algorithm-tree-matches-precedence")
	vReach("algorithm")
}

// ---- T: the documented table ----

// documented levels: assignment (lowest, right), or/and, comparisons,
// + -, * / mod, ** (right)
var vC06Table = []struct {
	op    string
	level int
	right bool
	head  string
}{
	{"=", 10, true, "set"}, {"+=", 10, true, "+="}, {"-=", 10, true, "-="},
	{"and", 30, true, "and"}, {"or", 30, true, "or"},
	{"==", 40, false, "=="}, {"!=", 40, false, "!="}, {"<", 40, false, "<"}, {"<=", 40, false, "<="}, {">", 40, false, ">"}, {">=", 40, false, ">="},
	{"+", 50, false, "+"}, {"-", 50, false, "-"},
	{"*", 60, false, "*"}, {"/", 60, false, "/"}, {"mod", 60, false, "mod"},
	{"**", 65, true, "**"},
}

func vh_C06_table() {
	env := vStdEnvs(1)[0]
	i := vChoice("op1", len(vC06Table))
	j := vChoice("op2", len(vC06Table))
	o1, o2 := vC06Table[i], vC06Table[j]
	if o1.level == o2.level && (o1.level == 30 || o1.right != o2.right) {
		vDone() // associativity of and/or among themselves is not documented
	}
	s := func(n string) Sexp { return env.MakeSymbol(n) }
	stream := []Sexp{s("a"), s(o1.op), s("b"), s(o2.op), s("c")}
	xs, err := InfixExpandArray(env, &SexpArray{Val: stream, Env: env})
	vAssert(err == nil && len(xs) == 1, "table-parses")
	if err != nil || len(xs) != 1 {
		return
	}
	var want Sexp
	rootIsFirst := o1.level < o2.level || (o1.level == o2.level && o1.right)
	if rootIsFirst {
		want = MakeList([]Sexp{s(o1.head), s("a"), MakeList([]Sexp{s(o2.head), s("b"), s("c")})})
	} else {
		want = MakeList([]Sexp{s(o2.head), MakeList([]Sexp{s(o1.head), s("a"), s("b")}), s("c")})
	}
	vAssert(vSexpEq(xs[0], want), "table-tree-matches-documented-precedence")
	vReach("table")
}

// ---- E: meaning ----

var vC06Arith = []string{"+", "-", "*", "<", "<=", "==", "and", "or"}

// vh_C06_meaning: {a op b op' c} evaluates to the same value as the prefix
// form the documented precedence determines, for symbolic operands, and a
// block's value is that of its last statement.
func vh_C06_meaning() {
	vFormatOpaque(true)
	env := vStdEnvs(1)[0]
	lv := func(op string) (int, bool) {
		for _, t := range vC06Table {
			if t.op == op {
				return t.level, t.right
			}
		}
		return 0, false
	}
	o1 := vC06Arith[vChoice("op1", len(vC06Arith))]
	o2 := vC06Arith[vChoice("op2", len(vC06Arith))]
	l1, r1 := lv(o1)
	l2, _ := lv(o2)
	if l1 == l2 && l1 == 30 {
		vDone()
	}
	// comparisons yield booleans: only combine them where the types fit
	a, b, c := vSmallInt("a"), vSmallInt("b"), vSmallInt("c")
	s := func(n string) Sexp { return env.MakeSymbol(n) }
	block := vL(s("infix"), vA(env, a, s(o1), b, s(o2), c))
	var prefix Sexp
	if l1 < l2 || (l1 == l2 && r1) {
		prefix = vL(s(o1), a, vL(s(o2), b, c))
	} else {
		prefix = vL(s(o2), vL(s(o1), a, b), c)
	}
	r1v, e1, p1 := vEval(env, block)
	r2v, e2, p2 := vEval(env, prefix)
	vAssert(!p1 && !p2, "meaning-no-panic")
	if p1 || p2 {
		return
	}
	vAssert((e1 == nil) == (e2 == nil), "meaning-same-errorness")
	if e1 != nil || e2 != nil {
		return
	}
	vAssert(vSexpEq(r1v, r2v), "meaning-infix-equals-prefix")
	// statements in order, value of the last
	seq := vL(s("infix"), vA(env, vL(s("t"), a), &SexpSemicolon{}, vL(s("t"), b), &SexpSemicolon{}, c))
	r3, e3, p3 := vEval(env, seq)
	vAssert(!p3 && e3 == nil, "block-evaluates")
	if !p3 && e3 == nil {
		vAssert(vSexpEq(r3, c), "block-value-is-last-statement")
		vAssert(len(vTraceLog) == 2, "block-statements-all-run")
		if len(vTraceLog) == 2 {
			vAssert(vTraceLog[0] == a.(*SexpInt).Val && vTraceLog[1] == b.(*SexpInt).Val, "block-statements-in-order")
		}
	}
	vReach("meaning")
}

// ---- S: the tightest level: indexing, slicing, field access, calls ----

// vC06Operand builds the infix tokens of a small integer expression over
// the variables i and j together with its value.
func vC06Operand(env *Zlisp, key string, i, j int64) ([]Sexp, int64) {
	s := func(n string) Sexp { return env.MakeSymbol(n) }
	switch vChoice(key, 6) {
	case 0:
		return []Sexp{s("i")}, i
	case 1:
		return []Sexp{s("i"), s("+"), vI(1)}, i + 1
	case 2:
		return []Sexp{s("j"), s("-"), vI(1)}, j - 1
	case 3:
		return []Sexp{s("i"), s("*"), vI(2), s("-"), vI(1)}, i*2 - 1
	case 4:
		return []Sexp{s("j"), s("-"), s("i")}, j - i
	default:
		return []Sexp{vI(1), s("+"), s("i"), s("*"), vI(2)}, 1 + i*2
	}
}

// vC06OperandText: the same operand expressions as source text.
func vC06OperandText(key string, i, j int64) (string, int64) {
	switch vChoice(key, 6) {
	case 0:
		return "i", i
	case 1:
		return "i + 1", i + 1
	case 2:
		return "j - 1", j - 1
	case 3:
		return "i * 2 - 1", i*2 - 1
	case 4:
		return "j - i", j - i
	default:
		return "1 + i * 2", 1 + i*2
	}
}

// vh_C06_selectors: a[e], a[e1:e2], a[:e], a[e:], a[:] with compound
// bound expressions bind tighter than every operator around them and mean
// Go-style indexing/slicing of the array: the block's value equals the
// element/sub-array computed from the values of the bound expressions; the
// same with an operator on either side (arr[e] + k * arr[e']), as the target
// of an assignment, and for a hash field h.k next to operators.
func vh_C06_selectors() {
	vFormatOpaque(true)
	env := vStdEnvs(1)[0]
	s := func(n string) Sexp { return env.MakeSymbol(n) }
	i := vInt64("i")
	j := vInt64("j")
	vAssume(i >= -1 && i <= 3 && j >= -1 && j <= 5)
	elems := []int64{10, 20, 30, 40}
	for _, f := range vT(env, `(def arr [10 20 30 40]) (def i 9001) (def j 9002) (def h (hash k: 7 m: 9)) (defn dbl [u] (* u 2)) (def recs [(hash a: 100 b: 101) (hash a: 200 b: 201)]) (def h2 (hash list: [10 20 30 40]))`, &SexpInt{Val: i}, &SexpInt{Val: j}) {
		if _, err, p := vEval(env, f); err != nil || p {
			vAssert(false, "selectors-setup")
			return
		}
	}
	colon := s(":")
	inRange := func(v int64) bool { return v >= 0 && v < int64(len(elems)) }
	sliceOK := func(lo, hi int64) bool { return lo >= 0 && lo <= hi && hi <= int64(len(elems)) }
	eval := func(tokens ...Sexp) (Sexp, error, bool) {
		return vEval(env, vL(s("infix"), vA(env, tokens...)))
	}
	// a bare selector is an assignable place; binding it to a variable
	// yields the selected value: { r := <tokens> ; r }
	evalValue := func(tokens ...Sexp) (Sexp, error, bool) {
		all := append([]Sexp{s("r"), s(":=")}, tokens...)
		all = append(all, &SexpSemicolon{}, s("r"))
		return vEval(env, vL(s("infix"), vA(env, all...)))
	}
	wantSlice := func(res Sexp, lo, hi int64, label string) {
		arr, isA := res.(*SexpArray)
		vAssert(isA, label+"-is-array")
		if !isA {
			return
		}
		vAssert(int64(len(arr.Val)) == hi-lo, label+"-length")
		if int64(len(arr.Val)) == hi-lo {
			for k := range arr.Val {
				iv, isI := arr.Val[k].(*SexpInt)
				vAssert(isI && iv.Val == elems[lo+int64(k)], label+"-elements")
			}
		}
	}
	intIs := func(res Sexp, want int64, label string) {
		iv, isI := res.(*SexpInt)
		vAssert(isI && iv.Val == want, label)
	}
	switch vChoice("shape", 13) {
	case 9: // a field of an indexed element, as the right operand of an operator and of an assignment
		t1, v1 := vC06OperandText("e1", i, j)
		res, err, p := vEvalString(env, "{x = 1 + recs["+t1+"].b * 2}")
		vAssert(!p, "chained-selector-no-panic")
		if !p && v1 >= 0 && v1 < 2 {
			vAssert(err == nil, "chained-selector-succeeds")
			if err == nil {
				intIs(res, 1+(100*(v1+1)+1)*2, "field-of-indexed-element-binds-tightest")
			}
		}
	case 10: // the same as a call argument and in an if condition
		t1, v1 := vC06OperandText("e1", i, j)
		res, err, p := vEvalString(env, "{(dbl {recs["+t1+"].b}) + 1}")
		vAssert(!p, "chained-selector-argument-no-panic")
		r2, err2, p2 := vEvalString(env, "{ r := 0; if not recs["+t1+"].b { r = 7 }; if recs["+t1+"].b > 150 { r = r + 1 } else { r = r + 2 }; r }")
		vAssert(!p2, "chained-selector-condition-no-panic")
		if !p && !p2 && v1 >= 0 && v1 < 2 {
			vAssert(err == nil && err2 == nil, "chained-selector-in-condition-succeeds")
			if err == nil {
				intIs(res, (100*(v1+1)+1)*2+1, "field-of-indexed-element-as-argument")
			}
			if err2 == nil {
				want := int64(2)
				if 100*(v1+1)+1 > 150 {
					want = 1
				}
				intIs(r2, want, "field-of-indexed-element-in-condition")
			}
		}
	case 11: // index of a field: 1 + h2.list[e] * 3
		t1, v1 := vC06OperandText("e1", i, j)
		res, err, p := vEvalString(env, "{1 + h2.list["+t1+"] * 3}")
		vAssert(!p, "index-of-field-no-panic")
		if !p && inRange(v1) {
			vAssert(err == nil, "index-of-field-succeeds")
			if err == nil {
				intIs(res, 1+elems[v1]*3, "index-of-field-binds-tightest")
			}
		}
	case 12: // assignment through a chained selector, then read back
		t1, v1 := vC06OperandText("e1", i, j)
		_, err, p := vEvalString(env, "{recs["+t1+"].b = i + 5}")
		vAssert(!p, "chained-assign-no-panic")
		if !p && v1 >= 0 && v1 < 2 {
			vAssert(err == nil, "chained-assign-succeeds")
			res, err2, p2 := vEvalString(env, "{0 + recs["+t1+"].b}")
			vAssert(!p2 && err2 == nil, "chained-read-back-succeeds")
			if !p2 && err2 == nil && err == nil {
				intIs(res, i+5, "chained-assignment-stores-right-side-value")
			}
		}
	case 0: // arr[e]
		t1, v1 := vC06Operand(env, "e1", i, j)
		res, err, p := evalValue(s("arr"), vA(env, t1...))
		vAssert(!p, "index-no-panic")
		if !p && inRange(v1) {
			vAssert(err == nil, "index-in-range-succeeds")
			if err == nil {
				intIs(res, elems[v1], "index-value")
			}
		}
	case 1: // arr[e1:e2]
		t1, v1 := vC06Operand(env, "e1", i, j)
		t2, v2 := vC06Operand(env, "e2", i, j)
		toks := append(append(append([]Sexp{}, t1...), colon), t2...)
		res, err, p := evalValue(s("arr"), vA(env, toks...))
		vAssert(!p, "slice-no-panic")
		if !p && sliceOK(v1, v2) {
			vAssert(err == nil, "slice-in-range-succeeds")
			if err == nil {
				wantSlice(res, v1, v2, "slice")
			}
		}
	case 2: // arr[:e]
		t2, v2 := vC06Operand(env, "e2", i, j)
		res, err, p := evalValue(s("arr"), vA(env, append([]Sexp{colon}, t2...)...))
		vAssert(!p, "prefix-slice-no-panic")
		if !p && sliceOK(0, v2) {
			vAssert(err == nil, "prefix-slice-in-range-succeeds")
			if err == nil {
				wantSlice(res, 0, v2, "prefix-slice")
			}
		}
	case 3: // arr[e:]
		t1, v1 := vC06Operand(env, "e1", i, j)
		res, err, p := evalValue(s("arr"), vA(env, append(append([]Sexp{}, t1...), colon)...))
		vAssert(!p, "tail-slice-no-panic")
		if !p && sliceOK(v1, 4) {
			vAssert(err == nil, "tail-slice-in-range-succeeds")
			if err == nil {
				wantSlice(res, v1, 4, "tail-slice")
			}
		}
	case 4: // arr[:]
		res, err, p := evalValue(s("arr"), vA(env, colon))
		vAssert(!p && err == nil, "whole-slice-succeeds")
		if !p && err == nil {
			wantSlice(res, 0, 4, "whole-slice")
		}
	case 5: // arr[e1] op1 k op2 arr[e2]: indexing binds tighter than any operator
		t1, v1 := vC06Operand(env, "e1", i, j)
		t2, v2 := vC06Operand(env, "e2", i, j)
		op1 := []string{"+", "-", "*"}[vChoice("op1", 3)]
		op2 := []string{"+", "-", "*"}[vChoice("op2", 3)]
		res, err, p := eval(s("arr"), vA(env, t1...), s(op1), vI(3), s(op2), s("arr"), vA(env, t2...))
		vAssert(!p, "index-in-expression-no-panic")
		if !p && inRange(v1) && inRange(v2) {
			vAssert(err == nil, "index-in-expression-succeeds")
			if err == nil {
				a, b := elems[v1], elems[v2]
				ap := func(op string, x, y int64) int64 {
					switch op {
					case "+":
						return x + y
					case "-":
						return x - y
					}
					return x * y
				}
				var want int64
				if op2 == "*" && op1 != "*" {
					want = ap(op1, a, ap(op2, 3, b))
				} else {
					want = ap(op2, ap(op1, a, 3), b)
				}
				intIs(res, want, "index-binds-tighter-than-operators")
			}
		}
	case 6: // arr[e1] = v ; arr[e1] + 1
		t1, v1 := vC06Operand(env, "e1", i, j)
		v := vSmallInt("v")
		_, err, p := eval(s("arr"), vA(env, t1...), s("="), v, s("+"), vI(1))
		vAssert(!p, "index-assign-no-panic")
		if !p && inRange(v1) {
			vAssert(err == nil, "index-assign-succeeds")
			res, err2, p2 := eval(s("arr"), vA(env, t1...), s("+"), vI(1))
			vAssert(!p2 && err2 == nil, "index-read-back-succeeds")
			if !p2 && err2 == nil && err == nil {
				intIs(res, v.(*SexpInt).Val+2, "index-assignment-stores-right-side-value")
			}
		}
	case 7: // h.k op i * h.m : field access binds tightest
		dk := env.MakeSymbol("h.k")
		dk.isDot = true
		dm := env.MakeSymbol("h.m")
		dm.isDot = true
		res, err, p := eval(dk, s("+"), s("i"), s("*"), dm)
		vAssert(!p && err == nil, "field-in-expression-succeeds")
		if !p && err == nil {
			intIs(res, 7+i*9, "field-access-binds-tightest")
		}
	default: // (dbl arr[e1]) + i * 2 : a parenthesised call is an operand
		t1, v1 := vC06Operand(env, "e1", i, j)
		call := vL(s("dbl"), vL(s("infix"), vA(env, s("arr"), vA(env, t1...))))
		res, err, p := eval(call, s("+"), s("i"), s("*"), vI(2))
		vAssert(!p, "call-in-expression-no-panic")
		if !p && inRange(v1) {
			vAssert(err == nil, "call-in-expression-succeeds")
			if err == nil {
				intIs(res, elems[v1]*2+i*2, "call-is-an-operand")
			}
		}
	}
	vReach("selectors")
}
