//go:build verif

package zygo

// C01 — no input can crash the host.

// vh_C01_stack: the stack kernel from an arbitrary consistent stack state
// with a symbolic non-negative count: no panic, error iff underflow.
func vh_C01_stack() {
	env := NewZlispSandbox()
	st := env.NewStack(0)
	size := vChoice("size", 4)
	for i := 0; i < size; i++ {
		st.PushExpr(&SexpInt{Val: int64(i)})
	}
	n := vInt("n")
	vAssume(n >= 0)
	defer func() {
		if r := recover(); r != nil {
			switch r.(type) {
			case vAssumeFailed, vDoneSignal:
				panic(r)
			}
			vAssert(false, "stack-op-panicked")
		}
	}()
	switch vChoice("op", 6) {
	case 0:
		_, err := st.Get(n)
		vAssert((err != nil) == (n >= size), "get-error-iff-underflow")
	case 1:
		_, err := st.GetExpr(n)
		vAssert((err != nil) == (n >= size), "getexpr-error-iff-underflow")
	case 2:
		xs, err := st.GetExpressions(n)
		vAssert((err != nil) == (n > size), "getexpressions-error-iff-underflow")
		if err == nil {
			vAssert(len(xs) == n, "getexpressions-count")
		}
	case 3:
		xs, err := st.PopExpressions(n)
		vAssert((err != nil) == (n > size), "popexpressions-error-iff-underflow")
		if err == nil {
			vAssert(len(xs) == n && st.Size() == size-n, "popexpressions-count")
		} else {
			vAssert(st.Size() == size, "failed-pop-leaves-stack")
		}
	case 4:
		_, err := st.Pop()
		vAssert((err != nil) == (size == 0), "pop-error-iff-empty")
	default:
		_, err := st.PopExpr()
		vAssert((err != nil) == (size == 0), "popexpr-error-iff-empty")
		st.PushExpr(&SexpInt{Val: 7})
		vAssert(st.Size() == size || (size == 0 && st.Size() == 1), "push-after-pop")
	}
	vReach("stack-op")
}

var vC01Heads = []string{
	"and", "or", "cond", "quote", "def", "mdef", "fn", "defn", "begin", "let", "letseq", "assert",
	"defmac", "macexpand", "syntaxQuote", "include", "for", "set", "break", "continue", "newScope",
	"package", "return",
	// ordinary builtins, builtins whose Go body can panic on bad operands,
	// a user function, an unbound symbol
	"+", "<", "sget", "slice", "makeArray", "/", "mod", "hget", "first", "aget", "apply", "map", "str",
	"userf", "nosuchfunction",
}

// vC01Atom builds the k-th argument shape.
func vC01Atom(env *Zlisp, k int, name string) Sexp {
	switch k {
	case 0:
		return &SexpInt{Val: vInt64(name)}
	case 1:
		return env.MakeSymbol("x") // unbound
	case 2:
		return env.MakeSymbol("a") // bound to an int
	case 3:
		return &SexpStr{S: "s"}
	case 4:
		return SexpNull
	case 5:
		return &SexpArray{Val: []Sexp{}, Env: env}
	case 6:
		return &SexpArray{Val: []Sexp{env.MakeSymbol("x"), &SexpInt{Val: 1}}, Env: env}
	case 7:
		return MakeList([]Sexp{env.MakeSymbol("x")})
	case 8:
		return Cons(&SexpInt{Val: 1}, &SexpInt{Val: 2}) // dotted pair
	case 9:
		return MakeList([]Sexp{env.MakeSymbol("let")}) // malformed nested special form
	case 10:
		return MakeList([]Sexp{env.MakeSymbol("fn"), &SexpArray{Val: []Sexp{env.MakeSymbol("p")}, Env: env}, env.MakeSymbol("p")})
	default:
		return MakeList([]Sexp{env.MakeSymbol("+"), env.MakeSymbol("a"), &SexpInt{Val: vInt64(name)}})
	}
}

const vC01NAtoms = 12

// vh_C01_forms: every form (head args...) over the grammar above goes
// through Generate and Run; a Go panic escaping the evaluation entry point
// is the violation.
func vh_C01_forms() {
	vFormatOpaque(true)
	vBudgetOK() // e.g. (for [] ...) legitimately does not terminate
	env := NewZlispSandbox()
	_, err, p := vEval(env, vForm(env, "def", env.MakeSymbol("a"), &SexpInt{Val: 5}))
	_, err2, p2 := vEval(env, vForm(env, "defn", env.MakeSymbol("userf"),
		&SexpArray{Val: []Sexp{env.MakeSymbol("p"), env.MakeSymbol("q")}, Env: env}, env.MakeSymbol("p")))
	if err != nil || p || err2 != nil || p2 {
		vAssert(false, "setup")
		return
	}
	maxArgs := 2
	if vTier() == 1 {
		maxArgs = 3
	}
	head := vC01Heads[vChoice("head", len(vC01Heads))]
	nargs := vChoice("nargs", maxArgs+1)
	args := make([]Sexp, nargs)
	for i := range args {
		args[i] = vC01Atom(env, vChoice("arg", vC01NAtoms), "i")
	}
	form := vForm(env, head, args...)
	vSetStepBudget(400000)
	_, _, panicked := vEval(env, form)
	vAssert(!panicked, "no-panic-escapes-eval")
	vReach("evaluated")
	// the interpreter must remain usable: a further evaluation returns
	_, _, panicked = vEval(env, vForm(env, "+", &SexpInt{Val: 1}, &SexpInt{Val: 2}))
	vAssert(!panicked, "no-panic-in-followup")
}

// vEvalString runs text through the public entry point with panic capture.
func vEvalString(env *Zlisp, txt string) (res Sexp, err error, panicked bool) {
	defer func() {
		if r := recover(); r != nil {
			switch r.(type) {
			case vAssumeFailed, vDoneSignal:
				panic(r)
			}
			panicked = true
		}
	}()
	res, err = env.EvalString(txt)
	return
}

// vh_C01_text: every byte string up to a length bound through
// LoadString+Run.
func vh_C01_text() {
	vFormatOpaque(true)
	vBudgetOK()
	n := 2
	if vTier() == 1 {
		n = 3
	}
	env := vEnvs(1)[0]
	k := 1 + vChoice("len", n)
	txt := vString("t", k)
	vSetStepBudget(300000)
	_, _, panicked := vEvalString(env, txt)
	vAssert(!panicked, "no-panic-escapes-evalstring")
	vReach("text-evaluated")
}

// vh_C01_infix: every infix block of up to 3 (thorough: 4) tokens over a
// vocabulary of keywords, operators, operands, separators and nested blocks
// goes through infix expansion, Generate and Run in the standard setup.
func vh_C01_infix() {
	vFormatOpaque(true)
	vBudgetOK()
	env := vStdEnvs(1)[0]
	s := func(n string) Sexp { return env.MakeSymbol(n) }
	if _, err, p := vEval(env, vL(s("def"), s("a"), vI(5))); err != nil || p {
		vAssert(false, "infix-setup")
		return
	}
	if _, err, p := vEval(env, vL(s("def"), s("h"), vL(s("hash"), vL(s("quote"), s("k")), vI(1)))); err != nil || p {
		vAssert(false, "infix-setup")
		return
	}
	label := env.MakeSymbol("top")
	label.colonTail = true
	tok := func() Sexp {
		switch vChoice("tok", 24) {
		case 0:
			return s("for")
		case 1:
			return s("range")
		case 2:
			return s("if")
		case 3:
			return s("else")
		case 4:
			return s("break")
		case 5:
			return s("continue")
		case 6:
			return s("a")
		case 7:
			return s("h")
		case 8:
			return s("=")
		case 9:
			return s(":=")
		case 10:
			return s("+=")
		case 11:
			return s("++")
		case 12:
			return s("+")
		case 13:
			return s("*")
		case 14:
			return s("and")
		case 15:
			return s("not")
		case 16:
			return &SexpComma{}
		case 17:
			return &SexpSemicolon{}
		case 18:
			return &SexpInt{Val: vInt64("i")}
		case 19:
			return vA(env, s("a"), vI(1))
		case 20:
			return vL(s("infix"), vA(env))
		case 21:
			return vL(s("infix"), vA(env, s("a")))
		case 22:
			return label
		default:
			return s("k")
		}
	}
	max := 3
	if vTier() == 1 {
		max = 4
	}
	var toks []Sexp
	if vChoice("mode", 2) == 0 {
		// free token sequences
		n := 1 + vChoice("ntok", max)
		for i := 0; i < n; i++ {
			toks = append(toks, tok())
		}
	} else {
		// go-style for statements: for <1..3 header tokens> { body }
		toks = append(toks, s("for"))
		n := 1 + vChoice("nheader", 3)
		for i := 0; i < n; i++ {
			toks = append(toks, tok())
		}
		toks = append(toks, vL(s("infix"), vA(env, s("a"))))
	}
	vSetStepBudget(300000)
	_, _, panicked := vEval(env, vL(s("infix"), vA(env, toks...)))
	vAssert(!panicked, "no-panic-escapes-infix-eval")
	// the same block through the expansion entry point
	_, _, panicked = vEval(env, vL(s("infixExpand"), vL(s("infix"), vA(env, toks...))))
	vAssert(!panicked, "no-panic-escapes-infix-expand")
	vReach("infix")
}

// vh_C01_decls: the declaration builders and what they declare, in the
// standard setup: every form (head args...) with head a builder (struct,
// func, method, interface, var, package, field, hash, defmap, ...), a
// declared typed function, a declared struct constructor or a declared
// variable, and arguments from a pool of labels (a: b: zz:), type names,
// operands and small arrays of those.  No Go panic may escape.
var vC01DeclHeads = []string{
	"struct", "func", "method", "interface", "var", "package", "field", "hash", "defmap", "msgmap",
	"togo", "&", "*", "derefSet", "colonAccess", ":", "=", "raw", "expectError", "range", "++", "req",
}

func vC01Label(env *Zlisp, name string) Sexp {
	l := env.MakeSymbol(name)
	l.colonTail = true
	return l
}

func vC01DeclArg(env *Zlisp, k int) Sexp {
	s := func(n string) Sexp { return env.MakeSymbol(n) }
	switch k {
	case 0:
		return vC01Label(env, "a")
	case 1:
		return vC01Label(env, "b")
	case 2:
		return vC01Label(env, "zz")
	case 3:
		return &SexpInt{Val: vInt64("i")}
	case 4:
		return &SexpStr{S: "s"}
	case 5:
		return s("int64")
	case 6:
		return s("Dog")
	case 7:
		return s("d")
	case 8:
		return s("x") // unbound
	case 9:
		return vA(env)
	case 10:
		return vA(env, vC01Label(env, "a"), s("int64"))
	case 11:
		return vA(env, vC01Label(env, "a"))
	case 12:
		return vA(env, vL(s("field"), vC01Label(env, "Name"), s("string")))
	case 13:
		return vA(env, vL(s("p"), s("*"), s("Dog")))
	case 14:
		return vL(s("*"), s("int64"))
	case 15:
		return SexpNull
	case 16:
		return vL(s("func"), s("g"), vA(env, vC01Label(env, "a"), s("int64")), vA(env))
	default:
		return vL(s("quote"), s("Dog"))
	}
}

const vC01NDeclArgs = 18

func vh_C01_decls() {
	vFormatOpaque(true)
	vBudgetOK()
	env := vStdEnvs(1)[0]
	for _, f := range vT(env, `(struct Dog [(field Name: string e:0) (field Number: int64 e:1)]) (def d (Dog Name: "rover" Number: 5)) (func tf [a:int64 b:string] [n:int64] (return (+ a 1))) (var v int64)`) {
		if _, err, p := vEval(env, f); err != nil || p {
			vAssert(false, "decls-setup")
			return
		}
	}
	var form Sexp
	if vChoice("mode", 2) == 0 {
		// builders with arbitrary arguments
		maxArgs := 2
		if vTier() == 1 {
			maxArgs = 3
		}
		head := vC01DeclHeads[vChoice("head", len(vC01DeclHeads))]
		nargs := vChoice("nargs", maxArgs+1)
		args := make([]Sexp, nargs)
		for i := range args {
			args[i] = vC01DeclArg(env, vChoice("arg", vC01NDeclArgs))
		}
		form = vForm(env, head, args...)
	} else {
		// calls of declared things with labelled arguments, up to 4 of them
		head := []string{"tf", "Dog", "d", "v"}[vChoice("callee", 4)]
		nargs := vChoice("nargs", 5)
		args := make([]Sexp, nargs)
		for i := range args {
			args[i] = vC01DeclArg(env, vChoice("larg", 5))
		}
		form = vForm(env, head, args...)
		// the same call from inside a function body and as an argument
		switch vChoice("site", 3) {
		case 1:
			form = vL(vL(vS(env, "fn"), vA(env), form))
		case 2:
			form = vL(vS(env, "list"), form)
		}
	}
	vSetStepBudget(400000)
	_, _, panicked := vEval(env, form)
	vAssert(!panicked, "no-panic-escapes-declaration-eval")
	vReach("decl-evaluated")
	_, _, panicked = vEval(env, vForm(env, "+", &SexpInt{Val: 1}, &SexpInt{Val: 2}))
	vAssert(!panicked, "no-panic-in-followup")
}

// vh_C01_selectors: indexing and slicing with arbitrary (also negative and
// huge) bounds, as a value, as the target of = += ++ and def, on arrays,
// strings and hashes: a value or an error, never a Go panic.
func vh_C01_selectors() {
	vFormatOpaque(true)
	vBudgetOK()
	env := vStdEnvs(1)[0]
	i, j := vInt64("i"), vInt64("j")
	for _, f := range vT(env, `(def arr [10 20 30]) (def h (hash k: 7 arr: [1 2])) (def txt "abc") (def i 9001) (def j 9002) (def recs [(hash b: 1)])`, &SexpInt{Val: i}, &SexpInt{Val: j}) {
		if _, err, p := vEval(env, f); err != nil || p {
			vAssert(false, "selectors-setup")
			return
		}
	}
	target := []string{"arr[i]", "arr[i:j]", "arr[:j]", "arr[i:]", "txt[i]", "txt[i:j]", "h.arr[i]", "recs[i].b", "arr[i][j]", "h[i]", "arr[i + j]", "arr[-1]", "arr[i:-1]"}[vChoice("target", 13)]
	var text string
	switch vChoice("use", 7) {
	case 0:
		text = "{ r := " + target + "; r }"
	case 1:
		text = "{ " + target + " = 7 }"
	case 2:
		text = "{ " + target + " += 1 }"
	case 3:
		text = "{ " + target + "++ }"
	case 4:
		text = "{ 1 + " + target + " * 2 }"
	case 5:
		text = "(def {" + target + "} 9)"
	default:
		text = "{ " + target + " = " + target + " }"
	}
	vSetStepBudget(400000)
	_, _, panicked := vEvalString(env, text)
	vAssert(!panicked, "no-panic-escapes-selector-use")
	_, _, panicked = vEvalString(env, "(len arr)")
	vAssert(!panicked, "no-panic-in-followup")
	vReach("selectors")
}

// user-defined functions of every parameter shape, called with every number
// of arguments 0..4 (too few, exact, too many) by three routes; the tail self
// call inside a definition lays its arguments out at compile time.
var vC01ParamShapes = []string{
	`[]`, `[p]`, `[p q]`, `[#p]`, `[p #q]`, `[#p #q]`, `[p & r]`, `[#p & r]`, `[& r]`, `[p & #r]`, `[& #r]`, `[#p q & r]`,
}

func vh_C01_userfns() {
	vFormatOpaque(true)
	vBudgetOK()
	env := NewZlispSandbox()
	shape := vC01ParamShapes[vChoice("params", len(vC01ParamShapes))]
	nargs := vChoice("nargs", 5)
	first := vChoice("first", 3)
	route := vChoice("route", 4)
	args := ""
	for i := 0; i < nargs; i++ {
		switch {
		case i == 0 && first == 1:
			args += " unboundname"
		case i == 0 && first == 2:
			args += " (list 1 2)"
		default:
			args += " 7"
		}
	}
	var src string
	switch route {
	case 0:
		src = `(defn uf ` + shape + ` 1) (uf` + args + `)`
	case 1:
		src = `(defn uf ` + shape + ` 1) (apply uf [` + args + `])`
	case 2:
		src = `(defn uf ` + shape + ` (cond false (uf` + args + `) 0)) (uf)`
	default:
		src = `(def g (fn ` + shape + ` 1)) (def h g) ((begin h)` + args + `)`
	}
	vSetStepBudget(400000)
	_, _, panicked := vEvalString(env, src)
	vAssert(!panicked, "no-panic-escapes-eval")
	_, _, panicked = vEval(env, vForm(env, "+", &SexpInt{Val: 1}, &SexpInt{Val: 2}))
	vAssert(!panicked, "no-panic-in-followup")
	vReach("userfns")
}
