//go:build verif

package zygo

// Native replay / conformance entry point.  VERIF_REPLAY names a JSON file
// holding a list of {harness, values}; each is run against the real build
// and the outcome (failed assertion labels, escaping panic, observations)
// is written as JSON to VERIF_REPLAY_OUT.

import (
	"encoding/json"
	"fmt"
	"os"
	"testing"
)

type vReplayOutcome struct {
	Harness  string   `json:"harness"`
	Status   string   `json:"status"` // ok | assume | panic
	Panic    string   `json:"panic,omitempty"`
	Failed   []string `json:"failed"`
	Observes []string `json:"observes"`
	Reached  []string `json:"reached"`
}

func vRunOne(name string, values map[string]uint64) (out vReplayOutcome) {
	out.Harness = name
	out.Status = "ok"
	f, ok := vHarnessRegistry[name]
	if !ok {
		out.Status = "missing"
		return
	}
	vResetReplay(values)
	defer func() {
		if r := recover(); r != nil {
			switch r.(type) {
			case vAssumeFailed:
				out.Status = "assume"
			case vDoneSignal:
				out.Status = "ok"
			default:
				out.Status = "panic"
				out.Panic = fmt.Sprintf("%v", r)
			}
		}
		out.Failed = vFailed
		out.Observes = vObserved
		out.Reached = vReached
	}()
	f()
	return
}

func TestVerifReplay(t *testing.T) {
	path := os.Getenv("VERIF_REPLAY")
	if path == "" {
		t.Skip("VERIF_REPLAY not set")
	}
	b, err := os.ReadFile(path)
	if err != nil {
		t.Fatal(err)
	}
	var specs []vReplayFile
	if err := json.Unmarshal(b, &specs); err != nil {
		var one vReplayFile
		if err2 := json.Unmarshal(b, &one); err2 != nil {
			t.Fatal(err)
		}
		specs = []vReplayFile{one}
	}
	var outs []vReplayOutcome
	for _, sp := range specs {
		outs = append(outs, vRunOne(sp.Harness, sp.Values))
	}
	jb, _ := json.MarshalIndent(outs, "", " ")
	if op := os.Getenv("VERIF_REPLAY_OUT"); op != "" {
		if err := os.WriteFile(op, jb, 0644); err != nil {
			t.Fatal(err)
		}
	} else {
		fmt.Println(string(jb))
	}
}
