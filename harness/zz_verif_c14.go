//go:build verif

package zygo

// C14 — hashes behave as insertion-ordered maps under every operation
// history.  Operation sequences from the empty hash, operation codes and key
// kinds case-split, key and value payloads symbolic; the oracle is an ordered
// association list kept by the harness.

type vC14Entry struct {
	key Sexp // canonical key (one-element arrays unwrapped)
	val int64
}

// vC14Key builds a key of kind k: 0 int, 1 symbol (symbolic number), 2 char,
// 3 one-element array [int].
func vC14Key(k int, name string) Sexp {
	switch k {
	case 0:
		v := vInt64(name)
		vAssume(v >= -(1<<31) && v < 1<<31)
		return &SexpInt{Val: v}
	case 1:
		n := vInt(name)
		vAssume(n >= 0 && n < 1<<20)
		return &SexpSymbol{name: "s", number: n}
	case 2:
		c := vInt32(name)
		vAssume(c >= 0 && c < 0x110000)
		return &SexpChar{Val: rune(c)}
	default:
		v := vInt64(name)
		vAssume(v >= -(1<<31) && v < 1<<31)
		return &SexpArray{Val: []Sexp{&SexpInt{Val: v}}}
	}
}

func vC14Canon(k Sexp) Sexp {
	if a, isA := k.(*SexpArray); isA && len(a.Val) == 1 {
		return a.Val[0]
	}
	return k
}

// vC14Same is key identity as the language defines it on hashable kinds:
// the same key iff (== k1 k2) holds without error.
func vC14Same(a, b Sexp) bool {
	na, aNum := vC14Num(a)
	nb, bNum := vC14Num(b)
	if aNum && bNum {
		return na == nb
	}
	sa, aSym := a.(*SexpSymbol)
	sb, bSym := b.(*SexpSymbol)
	if aSym && bSym {
		return sa.number == sb.number
	}
	return false
}

func vC14Num(a Sexp) (int64, bool) {
	switch t := a.(type) {
	case *SexpInt:
		return t.Val, true
	case *SexpChar:
		return int64(t.Val), true
	}
	return 0, false
}

func vC14Find(model []vC14Entry, key Sexp) int {
	for i := range model {
		if vC14Same(model[i].key, key) {
			return i
		}
	}
	return -1
}

func vC14IntOf(s Sexp) (int64, bool) {
	if i, ok := s.(*SexpInt); ok {
		return i.Val, true
	}
	return 0, false
}

// vC14Check compares every observable of the hash with the model.
func vC14Check(env *Zlisp, h *SexpHash, model []vC14Entry, used []Sexp) {
	// len
	res, err := vCall(env, "len", h)
	vAssert(err == nil, "len-no-error")
	if err == nil {
		n, isI := vC14IntOf(res)
		vAssert(isI && n == int64(len(model)), "len-agrees")
	}
	// keys: live keys once each, first-insertion order
	res, err = vCall(env, "keys", h)
	vAssert(err == nil, "keys-no-error")
	if err == nil {
		arr, isA := res.(*SexpArray)
		vAssert(isA, "keys-is-array")
		if isA {
			vAssert(len(arr.Val) == len(model), "keys-count")
			if len(arr.Val) == len(model) {
				for i := range model {
					vAssert(vC14Same(vC14Canon(arr.Val[i]), model[i].key), "keys-order")
				}
			}
		}
	}
	// positional access
	for i := range model {
		res, err = vCall(env, "hpair", h, &SexpInt{Val: int64(i)})
		vAssert(err == nil, "hpair-no-error")
		if err != nil {
			continue
		}
		p, isP := res.(*SexpPair)
		vAssert(isP, "hpair-is-pair")
		if !isP {
			continue
		}
		vAssert(vC14Same(vC14Canon(p.Head), model[i].key), "hpair-key")
		vp, isVP := p.Tail.(*SexpPair)
		vAssert(isVP, "hpair-shape")
		if isVP {
			v, isI := vC14IntOf(vp.Head)
			vAssert(isI && v == model[i].val, "hpair-value")
		}
	}
	// lookups of every key used so far
	for _, k := range used {
		i := vC14Find(model, vC14Canon(k))
		res, err = vCall(env, "hget", h, k, &SexpInt{Val: -777})
		vAssert(err == nil, "hget-default-no-error")
		if err == nil {
			v, isI := vC14IntOf(res)
			if i >= 0 {
				vAssert(isI && v == model[i].val, "hget-latest-value")
			} else {
				vAssert(isI && v == -777, "hget-missing-gives-default")
			}
		}
		res, err = vCall(env, "hget", h, k)
		if i >= 0 {
			vAssert(err == nil, "hget-present-no-error")
			if err == nil {
				v, isI := vC14IntOf(res)
				vAssert(isI && v == model[i].val, "hget-latest-value")
			}
		} else {
			vAssert(err != nil, "hget-missing-is-error")
		}
	}
}

func vC14Run(nops int, nkinds int) {
	vFormatOpaque(true) // message texts are not inspected by this harness
	env := NewZlispSandbox()
	h, err := MakeHash(nil, "hash", env)
	if err != nil {
		vAssert(false, "makehash")
		return
	}
	var model []vC14Entry
	var used []Sexp
	for step := 0; step < nops; step++ {
		op := vChoice("op", 3) // 0 set, 1 delete, 2 lookup of a fresh key only
		kind := vChoice("kind", nkinds)
		key := vC14Key(kind, "k")
		used = append(used, key)
		ck := vC14Canon(key)
		switch op {
		case 0:
			v := vInt64("v")
			vAssume(v != -777)
			_, err := vCall(env, "hset", h, key, &SexpInt{Val: v})
			vAssert(err == nil, "hset-no-error")
			if i := vC14Find(model, ck); i >= 0 {
				model[i].val = v
			} else {
				model = append(model, vC14Entry{ck, v})
			}
		case 1:
			_, err := vCall(env, "hdel", h, key)
			vAssert(err == nil, "hdel-no-error")
			if i := vC14Find(model, ck); i >= 0 {
				model = append(model[:i:i], model[i+1:]...)
			}
		}
		vC14Check(env, h, model, used)
	}
	vReach("sequence-done")
}

func vh_C14_ops() {
	if vTier() == 0 {
		vC14Run(3, 4)
	} else {
		vC14Run(4, 4)
	}
}
