//go:build verif

package zygo

// C14 — hashes behave as insertion-ordered maps under every operation
// history.  Operation sequences from the empty hash, operation codes and key
// kinds case-split, key and value payloads symbolic; the oracle is an ordered
// association list kept by the harness.

type vC14Entry struct {
	key Sexp // canonical key (one-element arrays unwrapped)
	val int64
}

// vC14Key builds a key of kind k: 0 int, 1 symbol (symbolic number), 2 char,
// 3 one-element array [int].
func vC14Key(k int, name string) Sexp {
	switch k {
	case 0:
		v := vInt64(name)
		vAssume(v >= -(1<<31) && v < 1<<31)
		return &SexpInt{Val: v}
	case 1:
		n := vInt(name)
		vAssume(n >= 0 && n < 1<<20)
		return &SexpSymbol{name: "s", number: n}
	case 2:
		c := vInt32(name)
		vAssume(c >= 0 && c < 0x110000)
		return &SexpChar{Val: rune(c)}
	default:
		v := vInt64(name)
		vAssume(v >= -(1<<31) && v < 1<<31)
		return &SexpArray{Val: []Sexp{&SexpInt{Val: v}}}
	}
}

func vC14Canon(k Sexp) Sexp {
	if a, isA := k.(*SexpArray); isA && len(a.Val) == 1 {
		return a.Val[0]
	}
	return k
}

// vC14Same is key identity as the language defines it on hashable kinds:
// the same key iff (== k1 k2) holds without error.
func vC14Same(a, b Sexp) bool {
	na, aNum := vC14Num(a)
	nb, bNum := vC14Num(b)
	if aNum && bNum {
		return na == nb
	}
	sa, aSym := a.(*SexpSymbol)
	sb, bSym := b.(*SexpSymbol)
	if aSym && bSym {
		return sa.number == sb.number
	}
	return false
}

func vC14Num(a Sexp) (int64, bool) {
	switch t := a.(type) {
	case *SexpInt:
		return t.Val, true
	case *SexpChar:
		return int64(t.Val), true
	}
	return 0, false
}

func vC14Find(model []vC14Entry, key Sexp) int {
	for i := range model {
		if vC14Same(model[i].key, key) {
			return i
		}
	}
	return -1
}

func vC14IntOf(s Sexp) (int64, bool) {
	if i, ok := s.(*SexpInt); ok {
		return i.Val, true
	}
	return 0, false
}

// vC14Check compares every observable of the hash with the model.
func vC14Check(env *Zlisp, h *SexpHash, model []vC14Entry, used []Sexp) {
	// len
	res, err := vCall(env, "len", h)
	vAssert(err == nil, "len-no-error")
	if err == nil {
		n, isI := vC14IntOf(res)
		vAssert(isI && n == int64(len(model)), "len-agrees")
	}
	// keys: live keys once each, first-insertion order
	res, err = vCall(env, "keys", h)
	vAssert(err == nil, "keys-no-error")
	if err == nil {
		arr, isA := res.(*SexpArray)
		vAssert(isA, "keys-is-array")
		if isA {
			vAssert(len(arr.Val) == len(model), "keys-count")
			if len(arr.Val) == len(model) {
				for i := range model {
					vAssert(vC14Same(vC14Canon(arr.Val[i]), model[i].key), "keys-order")
				}
			}
		}
	}
	// positional access
	for i := range model {
		res, err = vCall(env, "hpair", h, &SexpInt{Val: int64(i)})
		vAssert(err == nil, "hpair-no-error")
		if err != nil {
			continue
		}
		p, isP := res.(*SexpPair)
		vAssert(isP, "hpair-is-pair")
		if !isP {
			continue
		}
		vAssert(vC14Same(vC14Canon(p.Head), model[i].key), "hpair-key")
		vp, isVP := p.Tail.(*SexpPair)
		vAssert(isVP, "hpair-shape")
		if isVP {
			v, isI := vC14IntOf(vp.Head)
			vAssert(isI && v == model[i].val, "hpair-value")
		}
	}
	// lookups of every key used so far
	for _, k := range used {
		i := vC14Find(model, vC14Canon(k))
		res, err = vCall(env, "hget", h, k, &SexpInt{Val: -777})
		vAssert(err == nil, "hget-default-no-error")
		if err == nil {
			v, isI := vC14IntOf(res)
			if i >= 0 {
				vAssert(isI && v == model[i].val, "hget-latest-value")
			} else {
				vAssert(isI && v == -777, "hget-missing-gives-default")
			}
		}
		res, err = vCall(env, "hget", h, k)
		if i >= 0 {
			vAssert(err == nil, "hget-present-no-error")
			if err == nil {
				v, isI := vC14IntOf(res)
				vAssert(isI && v == model[i].val, "hget-latest-value")
			}
		} else {
			vAssert(err != nil, "hget-missing-is-error")
		}
	}
}

func vC14Run(nops int, nkinds int) {
	vFormatOpaque(true) // message texts are not inspected by this harness
	env := NewZlispSandbox()
	h, err := MakeHash(nil, "hash", env)
	if err != nil {
		vAssert(false, "makehash")
		return
	}
	var model []vC14Entry
	var used []Sexp
	for step := 0; step < nops; step++ {
		op := vChoice("op", 3) // 0 set, 1 delete, 2 lookup of a fresh key only
		kind := vChoice("kind", nkinds)
		key := vC14Key(kind, "k")
		used = append(used, key)
		ck := vC14Canon(key)
		switch op {
		case 0:
			v := vInt64("v")
			vAssume(v != -777)
			_, err := vCall(env, "hset", h, key, &SexpInt{Val: v})
			vAssert(err == nil, "hset-no-error")
			if i := vC14Find(model, ck); i >= 0 {
				model[i].val = v
			} else {
				model = append(model, vC14Entry{ck, v})
			}
		case 1:
			_, err := vCall(env, "hdel", h, key)
			vAssert(err == nil, "hdel-no-error")
			if i := vC14Find(model, ck); i >= 0 {
				model = append(model[:i:i], model[i+1:]...)
			}
		}
		vC14Check(env, h, model, used)
	}
	vReach("sequence-done")
}

func vh_C14_ops() {
	if vTier() == 0 {
		vC14Run(3, 4)
	} else {
		vC14Run(4, 4)
	}
}

// ---- views: range iteration, printed form, JSON; keys of every kind,
// values of different kinds ----

type vC14VEntry struct {
	key  Sexp
	kind int // 0 int, 1 string, 2 float, 3 array
	ival int64
}

var vC14PoolSrc = []string{`(quote a)`, `(quote b)`, `"a"`, `"b c"`, `97`, `'a'`}

func vC14PoolKey(env *Zlisp, k int) Sexp {
	switch k {
	case 0:
		return env.MakeSymbol("a")
	case 1:
		return env.MakeSymbol("b")
	case 2:
		return &SexpStr{S: "a"}
	case 3:
		return &SexpStr{S: "b c"}
	case 4:
		return &SexpInt{Val: 97}
	default:
		return &SexpChar{Val: 'a'}
	}
}

func vC14VSame(a, b Sexp) bool {
	if sa, ok := a.(*SexpStr); ok {
		sb, ok2 := b.(*SexpStr)
		return ok2 && sa.S == sb.S
	}
	if sa, ok := a.(*SexpSymbol); ok {
		sb, ok2 := b.(*SexpSymbol)
		return ok2 && sa.name == sb.name
	}
	return vC14Same(a, b)
}

func vC14VMatch(real Sexp, e vC14VEntry) bool {
	switch e.kind {
	case 0:
		i, ok := real.(*SexpInt)
		return ok && i.Val == e.ival
	case 1:
		s, ok := real.(*SexpStr)
		return ok && s.S == "str"
	case 2:
		f, ok := real.(*SexpFloat)
		return ok && f.Val == 2.5
	default:
		a, ok := real.(*SexpArray)
		if !ok || len(a.Val) != 1 {
			return false
		}
		i, ok := a.Val[0].(*SexpInt)
		return ok && i.Val == e.ival
	}
}

// vh_C14_views: after a history of sets and deletes over keys of every kind
// (symbols, strings, an int and the char of the same numeric value) with
// values of different kinds, every view of the hash presents exactly the live
// keys, once each, in first-insertion order, with their latest values: the
// range macro, the go-style range loop of infix blocks, the printed form
// (read back and evaluated) and the JSON text (member order).
func vh_C14_views() {
	vFormatOpaque(false)
	env := vStdEnvs(1)[0]
	s := func(n string) Sexp { return env.MakeSymbol(n) }
	ev := func(f Sexp) (Sexp, bool) {
		r, err, p := vEval(env, f)
		return r, err == nil && !p
	}
	if _, ok := ev(vL(s("def"), s("h"), vL(s("hash")))); !ok {
		vAssert(false, "views-setup")
		return
	}
	nops := 2
	if vTier() == 1 {
		nops = 3
	}
	var model []vC14VEntry
	for step := 0; step < nops; step++ {
		ki := vChoice("key", 6)
		key := vC14PoolKey(env, ki)
		var keyForm Sexp = key
		if ki <= 1 {
			keyForm = vL(s("quote"), key)
		}
		at := -1
		for i := range model {
			if vC14VSame(model[i].key, key) {
				at = i
			}
		}
		if vChoice("op", 2) == 1 {
			_, ok := ev(vL(s("hdel"), s("h"), keyForm))
			vAssert(ok, "views-hdel-succeeds")
			if at >= 0 {
				model = append(model[:at:at], model[at+1:]...)
			}
			continue
		}
		e := vC14VEntry{key: key, kind: vChoice("vkind", 4)}
		iv := vInt64("v")
		vAssume(iv >= 0 && iv < 10)
		e.ival = iv
		var val Sexp
		switch e.kind {
		case 0:
			val = &SexpInt{Val: iv}
		case 1:
			val = &SexpStr{S: "str"}
		case 2:
			val = &SexpFloat{Val: 2.5}
		default:
			val = vA(env, &SexpInt{Val: iv})
		}
		_, ok := ev(vL(s("hset"), s("h"), keyForm, val))
		vAssert(ok, "views-hset-succeeds")
		if at >= 0 {
			model[at].kind, model[at].ival = e.kind, e.ival
		} else {
			model = append(model, e)
		}
	}
	checkSeq := func(ks, vs Sexp, label string) {
		ka, okK := ks.(*SexpArray)
		va, okV := vs.(*SexpArray)
		vAssert(okK && okV, label+"-collects")
		if !okK || !okV {
			return
		}
		vAssert(len(ka.Val) == len(model) && len(va.Val) == len(model), label+"-visits-each-live-key-once")
		if len(ka.Val) != len(model) || len(va.Val) != len(model) {
			return
		}
		for i := range model {
			vAssert(vC14VSame(ka.Val[i], model[i].key), label+"-keys-in-insertion-order")
			vAssert(vC14VMatch(va.Val[i], model[i]), label+"-latest-values")
		}
	}
	view := vChoice("view", 2)
	if view == 0 { // the range macro
		forms := vT(env, `(def ks []) (def vs []) (range k v h (set ks (append ks k)) (set vs (append vs v)))`)
		good := true
		for _, f := range forms {
			if _, ok := ev(f); !ok {
				good = false
			}
		}
		vAssert(good, "range-macro-succeeds")
		if good {
			ks, _ := ev(s("ks"))
			vs, _ := ev(s("vs"))
			checkSeq(ks, vs, "range-macro")
		}
		// go-style range loop in an infix block
		forms = vT(env, `(def ks2 []) (def vs2 []) { for kk, vv := range h { ks2 = (append ks2 kk); vs2 = (append vs2 vv) } }`)
		good = true
		for _, f := range forms {
			if _, ok := ev(f); !ok {
				good = false
			}
		}
		vAssert(good, "range-loop-succeeds")
		if good {
			ks, _ := ev(s("ks2"))
			vs, _ := ev(s("vs2"))
			checkSeq(ks, vs, "range-loop")
		}
	} else { // printed form, read back and evaluated; JSON text
		// both are defined for JSON-like hashes (symbol or string keys): a
		// printed hash whose first key is a number or a char reads as an
		// infix block, and JSON member names are strings
		for _, e := range model {
			switch e.key.(type) {
			case *SexpStr, *SexpSymbol:
			default:
				vReach("views")
				vDone()
			}
		}
		r, ok := ev(vL(s("eval"), vL(s("read"), vL(s("str"), s("h")))))
		vAssert(ok, "printed-form-reads-back")
		if ok {
			h2, isH := r.(*SexpHash)
			vAssert(isH, "printed-form-is-a-hash")
			if isH {
				env.AddGlobal("h2", h2)
				ks, ok1 := ev(vL(s("keys"), s("h2")))
				vAssert(ok1, "printed-form-keys")
				ka, isA := ks.(*SexpArray)
				if ok1 && isA {
					vAssert(len(ka.Val) == len(model), "printed-form-presents-each-live-key-once")
					if len(ka.Val) == len(model) {
						for i := range model {
							vAssert(vC14VSame(vC14Canon(ka.Val[i]), model[i].key), "printed-form-keys-in-insertion-order")
							v, okv := ev(vL(s("hget"), s("h2"), vL(s("quote"), ka.Val[i])))
							vAssert(okv && vC14VMatch(v, model[i]), "printed-form-latest-values")
						}
					}
				}
			}
		}
		// JSON text: members in insertion order
		h, _ := ev(s("h"))
		txt := SexpToJson(h)
		j, ok := vjParse(txt)
		vAssert(ok && j.k == vjObj, "json-is-an-object")
		if ok && j.k == vjObj {
			var names []string
			for _, k := range j.keys {
				if k != "Atype" && k != "zKeyOrder" {
					names = append(names, k)
				}
			}
			vAssert(len(names) == len(model), "json-presents-each-live-key-once")
			if len(names) == len(model) {
				for i := range model {
					want := ""
					switch t := model[i].key.(type) {
					case *SexpStr:
						want = t.S
					case *SexpSymbol:
						want = t.name
					}
					vAssert(names[i] == want, "json-members-in-insertion-order")
				}
			}
		}
	}
	vReach("views")
}

// vh_C14_keylist: the array (keys h) returns is the script's own: later
// changes of the hash do not show in it, and writing into it does not change
// the hash (its keys, their order, len, the printed form, hpair).
func vh_C14_keylist() {
	vFormatOpaque(true)
	env := vStdEnvs(1)[0]
	v := vSmallInt("v")
	k := vChoice("case", 6)
	prog := []string{
		// the list is kept while the hash changes
		`(def h (hash a: 1 b: 9001 c: 3)) (def ks (keys h)) (hdel h a:) (hset h d: 4) (str ks)`,
		`(def h (hash a: 1 b: 9001 c: 3)) (def ks (keys h)) (hdel h b:) (hdel h c:) (len ks)`,
		`(def h (hash a: 1 b: 9001)) (def ks (keys h)) (hset h c: 3) (hset h d: 4) (hset h e: 5) (str ks)`,
		// the list is written into
		`(def h (hash a: 1 b: 9001 c: 3)) (def ks (keys h)) (aset ks 0 (quote zz)) (str (list (keys h) (len h) (hget h a:) (str h)))`,
		`(def h (hash a: 1 b: 9001 c: 3)) (def ks (keys h)) (aset ks 1 7) (str (list (keys h) (hget h b:) (hpair h 1)))`,
		`(def h (hash a: 1 b: 9001)) (def ks (append (keys h) (quote q))) (str (list (keys h) (len h) ks))`,
	}[k]
	want := []string{
		`(def ks [(quote a) (quote b) (quote c)]) (str ks)`,
		`3`,
		`(def ks [(quote a) (quote b)]) (str ks)`,
		`(def h (hash a: 1 b: 9001 c: 3)) (str (list (keys h) (len h) (hget h a:) (str h)))`,
		`(def h (hash a: 1 b: 9001 c: 3)) (str (list (keys h) (hget h b:) (hpair h 1)))`,
		`(def h (hash a: 1 b: 9001)) (def ks [(quote a) (quote b) (quote q)]) (str (list (keys h) (len h) ks))`,
	}[k]
	twin := vStdEnvPool[1]
	run := func(e *Zlisp, src string) (Sexp, bool) {
		var r Sexp
		for _, f := range vT(e, src, v) {
			var err error
			var p bool
			r, err, p = vEval(e, f)
			if err != nil || p {
				return nil, false
			}
		}
		return r, true
	}
	got, ok1 := run(env, prog)
	exp, ok2 := run(twin, want)
	vAssert(ok1 && ok2, "keylist-programs-evaluate")
	if ok1 && ok2 {
		vAssert(vSexpEq(got, exp), "key-list-and-hash-are-independent")
	}
	vReachIdx("keylist", k, 6)
}
