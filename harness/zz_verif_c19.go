//go:build verif

package zygo

// C19 — symbols are interned consistently across interpreters sharing a
// table.

// vC19Table fills env's symbol table with m arbitrary entries (symbolic
// names and numbers) satisfying the table invariant (a bijection), and an
// arbitrary counter unrelated to the table: exactly the state a sibling
// interpreter sharing the maps can leave behind.
func vC19Table(env *Zlisp, m int, maxLen int, maxCounter int) (names []string, nums []int) {
	env.symtable = make(map[string]int)
	env.revsymtable = make(map[int]string)
	for i := 0; i < m; i++ {
		n := vChoice("len", maxLen+1) // the empty name is a legal symbol name
		name := vString("name", n)
		num := vInt("num")
		vAssume(num >= 1 && num < 1<<30)
		for j := 0; j < i; j++ {
			vAssume(names[j] != name)
			vAssume(nums[j] != num)
		}
		names = append(names, name)
		nums = append(nums, num)
		env.symtable[name] = num
		env.revsymtable[num] = name
	}
	c := vInt("counter")
	vAssume(c >= 1 && c < maxCounter)
	env.nextsymbol = c
	return
}

func vC19Invariant(env *Zlisp, label string) {
	// every name maps to a number that maps back, and sizes agree
	vAssert(len(env.symtable) == len(env.revsymtable), label+"-sizes")
	for name, num := range env.symtable {
		back, ok := env.revsymtable[num]
		vAssert(ok && back == name, label+"-bijection")
	}
}

func vC19Bounds() (m, maxLen, maxCounter int) {
	if vTier() == 0 {
		return 2, 3, 100
	}
	return 3, 4, 1000
}

// vh_C19_make: one MakeSymbol from an arbitrary valid table.
func vh_C19_make() {
	mMax, maxLen, maxCounter := vC19Bounds()
	env := NewZlispSandbox()
	m := vChoice("m", mMax+1)
	names, nums := vC19Table(env, m, maxLen, maxCounter)
	n := vChoice("xlen", maxLen+1)
	x := vString("x", n)
	sym := env.MakeSymbol(x)
	vAssert(sym.name == x, "make-name")
	hit := -1
	for i := range names {
		if names[i] == x {
			hit = i
		}
	}
	if hit >= 0 {
		vReach("hit")
		vAssert(sym.number == nums[hit], "same-name-same-symbol")
		vAssert(len(env.symtable) == m, "hit-adds-nothing")
	} else {
		vReach("miss")
		for i := range nums {
			vAssert(sym.number != nums[i], "new-name-new-number")
		}
		vAssert(len(env.symtable) == m+1, "miss-adds-one")
	}
	vC19Invariant(env, "make-inv")
	// interning again gives the same symbol
	again := env.MakeSymbol(x)
	vAssert(again.number == sym.number, "make-idempotent")
}

// vh_C19_gen: one GenSymbol from an arbitrary valid table: the result is
// different from every symbol that exists.
func vh_C19_gen() {
	mMax, maxLen, maxCounter := vC19Bounds()
	env := NewZlispSandbox()
	m := vChoice("m", mMax+1)
	names, nums := vC19Table(env, m, maxLen, maxCounter)
	prefix := vString("prefix", 1)
	sym := env.GenSymbol(prefix)
	for i := range names {
		vAssert(sym.name != names[i], "gensym-name-is-new")
		vAssert(sym.number != nums[i], "gensym-number-is-new")
	}
	vAssert(len(env.symtable) == m+1, "gensym-adds-one")
	vC19Invariant(env, "gen-inv")
	// and a second generated symbol differs from the first
	sym2 := env.GenSymbol(prefix)
	vAssert(sym2.number != sym.number && sym2.name != sym.name, "gensyms-distinct")
	vReach("gen")
}

// vh_C19_family: histories of make / gensym / duplicate / clone over a
// family of interpreters sharing one table; names from a small pool of
// symbolic names (so a name shaped like a generated symbol is in range).
func vh_C19_family() {
	h := 3
	if vTier() == 1 {
		h = 4
	}
	root := NewZlispSandbox()
	// a small base table so the counter stays in the one/two digit range
	root.symtable = make(map[string]int)
	root.revsymtable = make(map[int]string)
	c := vInt("counter")
	vAssume(c >= 1 && c < 30)
	root.nextsymbol = c
	family := []*Zlisp{root}
	pool := []string{vString("p0", 2), vString("p1", 2)}
	var seen []*SexpSymbol
	var generated []*SexpSymbol
	for step := 0; step < h; step++ {
		who := family[vChoice("who", len(family))]
		switch vChoice("op", 4) {
		case 0:
			seen = append(seen, who.MakeSymbol(pool[vChoice("name", len(pool))]))
		case 1:
			g := who.GenSymbol("g")
			for _, s := range seen {
				vAssert(g.name != s.name && g.number != s.number, "gensym-differs-from-existing")
			}
			for _, s := range generated {
				vAssert(g.name != s.name && g.number != s.number, "gensym-differs-from-generated")
			}
			generated = append(generated, g)
			seen = append(seen, g)
		case 2:
			if len(family) < 3 {
				family = append(family, who.Duplicate())
			}
		default:
			if len(family) < 3 {
				family = append(family, who.Clone())
			}
		}
		// equal names <=> equal numbers, across the whole family
		for i := range seen {
			for j := 0; j < i; j++ {
				vAssert((seen[i].name == seen[j].name) == (seen[i].number == seen[j].number), "name-eq-iff-number-eq")
			}
		}
	}
	vReach("history")
}

// vh_C19_equal: two symbols are equal exactly when their names are equal:
// two interned names of 1..3 symbolic bytes each (letters and digits, so that
// names with numeric tails like a7 / a07 are in range), compared through
// Compare and through the script-level == and != and as list elements.
func vh_C19_equal() {
	vFormatOpaque(true)
	env := vEnvs(1)[0]
	name := func(tag string) string {
		n := 1 + vChoice(tag+"len", 3)
		b := make([]byte, n)
		for i := range b {
			c := vUint8(tag)
			// a letter from a small pool or a digit
			vAssume(c == 'a' || c == 't' || c == '_' || (c >= '0' && c <= '9'))
			if i == 0 {
				vAssume(c == 'a' || c == 't' || c == '_')
			}
			b[i] = c
		}
		return string(b)
	}
	na, nb := name("x"), name("y")
	sa, sb := env.MakeSymbol(na), env.MakeSymbol(nb)
	sameName := na == nb
	c, err := env.Compare(sa, sb)
	vAssert(err == nil, "symbols-compare-without-error")
	if err == nil {
		vAssert((c == 0) == sameName, "symbols-equal-iff-names-equal")
	}
	q := func(x Sexp) Sexp { return vL(vS(env, "quote"), x) }
	r, err2, p := vEval(env, vL(vS(env, "=="), q(sa), q(sb)))
	vAssert(!p && err2 == nil, "symbol-equality-evaluates")
	if !p && err2 == nil {
		b, isB := r.(*SexpBool)
		vAssert(isB && b.Val == sameName, "script-equality-iff-names-equal")
	}
	r2, err3, p3 := vEval(env, vL(vS(env, "=="), q(vL(sa, vI(1))), q(vL(sb, vI(1)))))
	if !p3 && err3 == nil {
		b, isB := r2.(*SexpBool)
		vAssert(isB && b.Val == sameName, "list-equality-iff-names-equal")
	}
	vAssert((sa.number == sb.number) == sameName, "numbers-equal-iff-names-equal")
	vReach("equal")
}

// vh_C19_keys: two symbols with different names are different hash keys, and
// one name is one key: however the hash table buckets its keys, the names
// decide.  Names of 8 bytes, the last 6 symbolic letters (about 10^17 pairs): if bucketing or key comparison ever looks at anything coarser than
// the interned identity - a checksum of the name, a prefix, the length - the
// solver is asked for two names that agree on it.
func vh_C19_keys() {
	vFormatOpaque(true)
	env := vEnvs(1)[0]
	name := func(tag string) string {
		// "qz" + 6 symbolic letters: no builtin starts like that, so
		// interning does not fork on the existing table
		b := []byte{'q', 'z', 0, 0, 0, 0, 0, 0}
		for i := 2; i < len(b); i++ {
			c := vUint8(tag)
			vAssume(uint8(c-'a') < 26) // one comparison, no case split: a..z
			b[i] = c
		}
		return string(b)
	}
	na, nb := name("x"), name("y")
	sa, sb := env.MakeSymbol(na), env.MakeSymbol(nb)
	sameName := na == nb
	h, err := MakeHash(nil, "hash", env)
	if err != nil {
		vAssert(false, "hash-builds")
		return
	}
	e1 := h.HashSet(sa, &SexpInt{Val: 1})
	e2 := h.HashSet(sb, &SexpInt{Val: 2})
	vAssert(e1 == nil && e2 == nil, "symbols-are-usable-as-keys")
	if e1 != nil || e2 != nil {
		return
	}
	va, ea := h.HashGet(env, sa)
	vb, eb := h.HashGet(env, sb)
	vAssert(ea == nil && eb == nil, "both-keys-found")
	if ea != nil || eb != nil {
		return
	}
	ia, oka := va.(*SexpInt)
	ib, okb := vb.(*SexpInt)
	if sameName {
		vAssert(HashCountKeys(h) == 1 && oka && okb && ia.Val == 2 && ib.Val == 2, "one-name-is-one-key")
	} else {
		vAssert(HashCountKeys(h) == 2 && oka && okb && ia.Val == 1 && ib.Val == 2, "different-names-are-different-keys")
	}
	vReach("keys")
}
