# Stated bounds per property and tier (copied into the evidence files).
BOUNDS = {
    "C07": {
        "all": "self: (op x x) and (== a a) with a an array holding x, x bound to one object of each numeric kind; operands: full-width symbolic int64/uint64/int32(char)/float64 payloads (no value bound); "
               "case split: 4x4 type pairs x 6 comparison operators; + - * on {int,char,float}^2 and uint64^2; "
               "+ - * / on float x uint64 pairs; / on int^2, uint64^2 and mixed float pairs; mod on int^2. Outside: ** (libm pow), "
               "int-vs-uint64 arithmetic and float-vs-uint64 comparison (unspecified by the statement), time operands, n-ary (>2) calls, bit operations.",
        "assumptions": ["float64 is encoded as SMT FloatingPoint 11 53 with RNE; int->float conversion is to_fp RNE (Go's conversion)",
                        "oracle: Go's own <, ==, +, -, *, /, % on the same symbolic operands inside the harness (encoded by the same engine as bvslt/bvult/fp.lt/... ), "
                        "i.e. the statement's 'exact mathematical order' and 'wrap modulo 2^64 as in Go'"],
    },
    "C14": {
        "quick": "sequences of 3 operations from the empty hash; op in {hset, hdel, lookup-only}; key kind in {int, symbol(symbolic number), char, one-element array [int]}; key payloads symbolic (ints in [-2^31,2^31), symbol numbers in [0,2^20), chars in [0,0x110000)), value payloads symbolic int64; after every step: len, keys, hpair i for every live i, hget and hget-with-default of every key used so far. views: 2 operations (set/delete) over 6 concrete keys (symbols a b, strings \"a\" \"b c\", int 97 and char 'a' = the same key) with values of 4 kinds (symbolic int 0..9, string, float, one-element array), then the range macro, the go-style range loop, the printed form read back and evaluated and the JSON member order (the last two for symbol/string keys only).",
        "thorough": "as quick with sequences of 4 operations; views with 3 operations.",
        "assumptions": ["vFormatOpaque: decimal formatting of symbolic numbers inside error messages returns a placeholder (no assertion inspects message text)",
                        "key identity in the model: same key iff (== k1 k2) holds without error (int/char by numeric value, symbols by number), [k] denotes k",
                        "outside: symbolic string keys (fnv hashing loop over symbolic bytes; concrete string keys are in the views harness), printed form of hashes with number/char keys (reads as an infix block; not JSON-like), longer histories"],
    },
    "C19": {
        "quick": "arbitrary table of m<=2 entries (names of 0..3 symbolic bytes - the empty name is legal -, numbers in [1,2^30)) satisfying the bijection invariant, counter in [1,100) unrelated to the table; one MakeSymbol(name of 1..3 symbolic bytes) or GenSymbol(1 symbolic prefix byte) (+ a second GenSymbol); family histories of 3 operations over {make(p0|p1), gensym, duplicate, clone}, <=3 interpreters, two 2-byte symbolic pool names, counter in [1,30); growth (public API only): histories of 3 operations over {make(4 names), gensym, duplicate, clone, intern a batch of 400 fresh names} from a real sandbox.",
        "thorough": "m<=3, names 1..4 bytes, counter in [1,1000); family and growth histories of 4 operations, batches of 400 or 1500.",
        "assumptions": ["decimal formatting of the symbolic counter uses the engine's digit model (fork on digit count, digit_j = (n/10^j)%10), differentially validated against strconv by the conformance vectors",
                        "outside: str2sym/gensym at script level through the reader, names longer than the bound, counters beyond the bound"],
    },
    "C01": {
        "quick": "stack kernel: sizes 0..3, symbolic n>=0, 6 operations; forms: 38 heads x <=2 arguments from 12 shapes (symbolic ints inside); text: all byte strings of length 1..2; infix: token sequences of <=3 tokens over a 24-token vocabulary and go-style for headers; decls (standard setup): 22 declaration builders/operators x <=2 arguments from 18 shapes (labels a: b: zz:, type names, declared names, arrays of labelled pairs, field/func forms), and calls of a declared typed func / struct constructor / instance / variable with <=4 arguments from {a: b: zz: int string} at 3 call sites; prefixes: every proper prefix (cut at character boundaries) of 18 feature texts, then 4 further evaluations and Clear; selectors: 13 index/slice/field targets on arrays, strings and hashes with unconstrained symbolic i, j x 7 uses (value, = += ++, operand, def, self-assignment). Step budget 400k SSA steps per evaluation (exhausting it is accepted: non-terminating programs).",
        "thorough": "forms and builders with <=3 arguments; text: all byte strings of length 1..3; infix: <=4 tokens.",
        "assumptions": ["vFormatOpaque: message texts mentioning symbolic numbers are placeholders", "outside: texts longer than the bound, process exit status of cmd/zygo, cyclic data printing, the token-queue harness of DESIGN §6 (not built)"],
    },
    "C13": {
        "quick": "history: lexer state havocked (all scalar fields incl. the 20-rune look-back ring, previous tokens with strings of length<=1; ring index in {0,1,19}), 2 junk bytes in the buffer and 1 junk token in the queue, then every text of 1..2 bytes; second parse: every first text of 1..2 bytes then one of 10 fixed second texts; chunks: every text of 2..3 bytes, every single cut; last token: every text of 1..2 bytes that reads as one atom when followed by a newline; offsets: every text of 1..2 bytes and 28 feature texts placed at every rune offset 0..23 behind a prefix of complete atoms (reads as the prefix's atoms followed by what the text reads as alone); prefixes: every proper prefix of 18 feature texts as the first text, 14 second texts; moreinput: every text of <=4 characters over {( ) [ ] { } \" ` / * a blank newline} against a reference classification complete / unfinished / mismatched.",
        "thorough": "texts one byte longer in each harness; offsets 0..43.",
        "assumptions": ["regexp matching on symbolic text is the engine's NFA-as-term model; strconv.ParseFloat on symbolic text is handled by enumerating the feasible byte values",
                        "outside: longer texts, two or more cuts, cuts inside the UTF-8 encoding of one character, unfinished character literals in the moreinput alphabet, the REPL's liner loop"],
    },
    "C02": {
        "quick": "expr: depth<=1 over 11 forms (atoms: symbolic int, global a, possibly-unbound x); nested: 12 outer forms x depth-1 expression in one operand position; loops: 8 shapes, bound n in [0,3], break/continue index symbolic; calls: 15 shapes (incl. map/apply over lists and arrays, elements on which the function fails, nested maps); truthiness: 23 values (ints, floats incl. 0.0/-0.0/NaN, strings, arrays, hashes, nil, booleans, chars, uint64, symbols, functions, computed values) x 7 test positions (cond, and, or, not, for test, parameter, infix if); recursion: a self-recursive function with its recursive call in 11 kinds of position (tail, non-final and/or operand, arithmetic operand, let binding, non-final statement, cond test, argument of a tail self call, ...) x 2 guards x 9 outer x 3 (thorough 9) inner tail-context wrappers, depth n in 0..3. Operands assumed inside +-2^31 (C07 owns the boundaries). Reference evaluator unwinding bound 4 iterations / 200 calls.",
        "thorough": "expr depth<=2 with one operand of the outer form (every choice of which) one level deep and the others atoms, + and - only below a depth-2 root (all operands deep, or products under comparisons, exceed the path cap / the solver's time limit).",
        "assumptions": ["oracle: the reference evaluator in harness/zz_verif_eval.go encoding Appendix A of DESIGN.md", "outside: surface syntax (ASTs are built directly), strings/hashes as operands, infix, deeper nesting"],
    },
    "C04": {
        "all": "the C02 shapes (expr depth<=1, nested, loops, calls) + together; decls/idle: 51 programs of the full surface language in a sandbox with the standard setup (struct, var, func with and without body called positionally and by name, method, interface, package incl. nested and with loops, defmac at top level/in functions/in loops, macexpand, multiple assignment, mdef, range over hashes and arrays with break/continue, infix blocks with :=, if/else, go-style for incl. labelled break/continue and range, indexing/slicing, eval/apply/map/expectError, closures) with a symbolic integer hole and a symbolic loop bound in 0..3, evaluated form by form, and evaluated 3 times over in one interpreter (idle growth); only evaluations that succeed. Outside: import/req builders (need files), programs outside the table, the static stack-height pass of DESIGN §6 (not built).",
        "assumptions": ["reads the unexported stacks of Zlisp (datastack, linearstack, addrstack, loopstack) from in-package harness code injected by overlay"],
    },
    "C05": {
        "all": "failure plan of 4 symbolic Bools (k-th host call fails), failure kind in {error return, Go panic}; shapes: C02 expr depth<=1, loops, calls; compile: 3 malformed forms x 24 positions (and/or/cond arms and tests, begin, let/letseq bindings and bodies, def/set, for init/test/advance/body, nested loops, function body, call argument, macro template, array literal); lazy: 10 programs (lazy arguments that outlive the call and are forced again later, forcing inside map/apply callbacks, nested calls) evaluated form by form - a failure does not end the sequence - against the reference evaluator under the same plan; definition: the malformed forms at the 18 eagerly compiled positions inside a function that is defined (3 definers) and never called - the definition must fail and bind nothing; parse: 10 bad texts; prefixes: every proper prefix of 18 feature texts as the failing text, 7 follow-up texts compared with a twin interpreter. Follow-up battery: 8 names, (+ 1 2), empty input.",
        "assumptions": ["outside: failures inside eval/macro expansion at depth > 1, deeper programs"],
    },
    "C03": {
        "quick": "28 programs with 3 symbolic holes (recursion depth hole in 0..2); grammar bodies of depth<=1 over 7 forms and 4 atoms (x, y, a literal, and z which only the caller binds) x 3 skeletons (function body, returned closure, closure two levels below its creator); blocks: 5 block kinds (newScope, let with/without bindings, letseq, function body) x all 6 orders of {closure definition, def of the name it uses, definition of a setter closure}, closures called inside the block and after the creator returned.",
        "thorough": "grammar bodies of depth<=2 (about 230k programs, ~5 min).",
        "assumptions": ["oracle: reference evaluator with linked static frames", "outside: deeper nesting, packages, macros"],
    },
    "C09": {
        "all": "9x9 wrapper combinations; counter symbolic >= 3 (space); n in 0..3 (invisible); positions: the recursion grammar of C02 (11 call positions x 2 guards x 9 x 3/9 wrappers, n in 0..3) against the reference evaluator, stacks at rest afterwards; callsites: fixed and variadic tail-recursive functions (2+4 cores x 9 wrappers) reached by 7 routes (direct, alias, caller parameter or let-local named like the function, passed as argument, from a closure); rebound: the same functions called through an alias after their global name was rebound to a number (error or the self-recursive value accepted; a run that does not return within 2M steps is a violation); hidden: closures made by macros inside a tail-recursive body (2 makers x 9 wrappers, n in 0..3) against the written-out fn in a twin interpreter, and 3 bodies with a def that runs in some iterations only. Mutual recursion is not optimised by design and is outside.",
        "assumptions": ["the inductive argument: depths at the 2nd and 3rd arrival are equal for an arbitrary (symbolic) counter and accumulator, and the VM is deterministic in (code, depths, arguments)"],
    },
    "C15": {
        "quick": "templates: top list/array of 1..3 elements, elements from 12 kinds (int, symbol, ~v, ~@l, ~(+ v 1), (), [], string, bool, (quote q), nested ^(b ~v), nested ^[~@l lit]) (depth 0); splice list length 0..2; macros: 12 macros (incl. a macro-defining macro) (incl. expansions containing break, continue, a let around the body, a tail self call) x 9 call sites (top level, function body, loop body, let operand, tail position, let/newScope inside a loop, nested loops, letseq inside let inside a function).",
        "thorough": "elements may be nested lists/arrays of 1..3 elements (depth 1).",
        "assumptions": ["outside: hash templates, reader sugar ^ ~ ~@ (ASTs are built directly; the reader is C13's subject), macexpand"],
    },
    "C16": {
        "all": "20 bodies (incl. force/substitute in 5 orders and 5 self-recursive ones: tail self call, non-tail, under a let, substitute after recursion, lazy second parameter) x 15 routes (incl. apply/map handing on list and symbol values) with 3 symbolic holes; 7 strictness programs.",
        "assumptions": ["outside: typed func declarations, map route for lazy functions"],
    },
    "C06": {
        "quick": "algorithm: 2 operators (3 operands); table: 17x17 operator pairs; meaning: 8x8 operator pairs over {+ - * < <= == and or}, symbolic int operands; selectors: a[e], a[e1:e2], a[:e], a[e:], a[:] with bounds from 6 compound expressions over symbolic i in [-1,3], j in [-1,5] against Go-style indexing/slicing of a 4-element array, arr[e] op k op' arr[e'] (9 operator pairs), arr[e] = v + 1, h.k + i * h.m, (dbl arr[e]) + i * 2, recs[e].b as right operand / argument / condition / assignment target, h2.list[e]; spacing: A op B written with blanks on both sides / left only / right only / none, and A op B op' C without blanks (A in 4 operand kinds, B, C in 4, 11 operators), expansion and value equal to the fully spaced form (operator+operand spellings that fuse into a longer operator, and a blank-then-sign literal, excluded).",
        "thorough": "algorithm: 3 operators (4 operands).",
        "assumptions": ["equal binding powers with different associativity are excluded (no defined meaning); and/or among themselves are excluded from the table check (associativity not documented)",
                        "outside: if/else and go-style for lowering (C04/C01 run them, no precedence oracle), comma; out-of-range indices/slices only have to return (value or error)"],
    },
    "C08": {
        "quick": "every name x arity 0..1 x 7 argument shapes (canary secret file path, shell command string, touch-file path, environment variable name, 'touch', int, quoted symbol) x 7 routes (direct, eval, macro body, macro expansion, alias, apply, expectError); the three canary strings also wrapped in an array, a list and a nested array (routes direct, eval, macro expansion); renamed: every name aliased under each outside-world function name the sandbox does not bind (keys of SystemFunctions) and called through a variable holding the quoted alias, with (hash, touch-file path) and (touch-file path); afterplain: an unsandboxed interpreter is set up and used first, then a sandbox with the standard setup: every name x {no argument, 4 canary arguments}, interpreters built on every path.",
        "thorough": "arity 0..2.",
        "assumptions": ["engine: every function of os, os/exec, syscall, io/ioutil, net is an effect marker returning an error (never executed); effects counted are those a native run can observe with the same canaries",
                        "outside: cmd/zygo -sandbox as a process, grammar-generated programs combining primitives, arity > 2"],
    },
    "C12": {
        "quick": "chars < U+0250; strings of 1 rune < U+0250; ints |i| < 10^5; literals of 1..3 digits; nested shapes of 2 atoms; offsets: 21 printed values (negative numbers, signed exponents, hex, ULL, Inf/NaN, strings and chars holding '-') placed at every rune offset 0..23 (thorough 0..43) behind a prefix of complete atoms; widelits: 0x+16 hex digits, 0o+22 octal digits, 0b+64 binary digits with symbolic leading/last digits and 3 fill patterns, 10 decimal boundary spellings (2^63-1, 2^63, 2^64-1, 2^64, signed, ULL, underscores): exact value or rejected; floats: 27 bit patterns (zeros, subnormals, neighbours of 1, 2^53, 2^63, max, infinities) and 14 values produced by arithmetic, bare and inside an array - concrete enumeration (strconv float code is not encodable), no solver verdict.",
        "thorough": "chars < U+1000; strings of 1..2 runes < U+0250; ints as quick (six or more digits: solver unknown at 30 s); offsets 0..43.",
        "assumptions": ["decimal printing of symbolic ints uses the engine's digit model", "outside: floats (strconv.FormatFloat/ParseFloat on symbolic values is not encodable), hashes through eval, symbols with unusual names, runes above the bound (the full range did not finish in 25 minutes)"],
    },
    "C11": {
        "quick": "encode: 9 shapes; strings 'a'+r+'z' with r symbolic over the whole of Unicode (surrogates excluded); ints |i|<10^5; roundtrip (reference reader -> Go values -> real decode half): r below U+0250; msgpack: 10 shapes (scalars, nil, arrays, hashes and records with nil members, nested) through SexpToMsgpack/MsgpackToSexp with the codec boundary modelled, ints |i|<1000; history: encode, change a nested container in place (6 kinds of change at depth 1..2), encode again, json and msgpack routes.",
        "thorough": "roundtrip: r below U+3000.",
        "assumptions": ["the ugorji codec (reflection/unsafe) is not executed by the engine: its four entry points dispatch to a model in harness/zz_verif_codec.go (plain data only; other values are flagged); the harness's RFC 8259 reader stands in for 'a standard decoder'; native replays and the sampled-path validation run the real codec; floats are outside"],
    },
    "C17": {
        "all": "one declaration (string, int64, float64, bool fields); (4 declared fields + 1 undeclared field name) x 8 value kinds (int, string, float, bool, array, hash, nil, empty slice) x 7 routes (hset with label / quoted symbol / [quoted symbol] key, set dot-path, infix dot assignment, infix d[%field] assignment, constructor); 30 programs incl. pointer writes, redeclaration, field-less structs and instances made after a redeclaration. Outside: pointer writes, slices/pointer/struct-typed fields, JSON/msgpack decoding into records, variable rebinding (not a write to an instance).",
        "assumptions": ["int written into a float64 field is excluded (conversion rule not stated)", "nil / [] written into a declared field is not asserted either way ('accepted where the language says so'); into an undeclared field it must be rejected"],
    },
    "C18": {
        "quick": "first rune below U+0250 (excluding space, '.', controls); depth 1..2; kinds value/function/hash/package; a hash member also with the path continuing into its field; routes get/set.",
        "thorough": "first rune below U+3000.",
        "assumptions": ["nothing is asserted for names starting with a non-letter", "outside: depth 3, aliases at walker level (covered only by the scripted programs), infix assignment route with symbolic names"],
    },
    "C20": {
        "all": "maps of at most 3 entries are permuted; larger maps are walked in insertion order and in reverse (case split per range); scenarios: symbols, decode, hashes, setup (sandbox + StandardSetup: outcome of (< 'a 'b) for 31 adjacent pairs of type/builder/builtin names), fresh (16 programs each run in three successive fresh interpreters of one process; value and error text equal), kinds (12 programs with known values in every sequence of 2..3 interpreters over {bare sandbox, sandbox+StandardSetup, full+StandardSetup}), scope printing with names differing only in case (pointers masked), error texts that name one of several offenders (undeclared named arguments, undeclared fields, unbound names) in the standard setup. Outside: registry scans by reflection, fresh OS processes, pointer printing, permutations of large maps other than the reverse.",
        "assumptions": ["the engine's maps are insertion-ordered association lists; 'every order' means every permutation of the live entries at range time"],
    },
}
