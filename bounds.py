# Stated bounds per property and tier (copied into the evidence files).
BOUNDS = {
    "C07": {
        "all": "operands: full-width symbolic int64/uint64/int32(char)/float64 payloads (no value bound); "
               "case split: 4x4 type pairs x 6 comparison operators; + - * on {int,char,float}^2 and uint64^2; "
               "/ on int^2, uint64^2 and mixed float pairs; mod on int^2. Outside: ** (libm pow), "
               "int-vs-uint64 mixes (unspecified by the statement), time operands, n-ary (>2) calls, bit operations.",
        "assumptions": ["float64 is encoded as SMT FloatingPoint 11 53 with RNE; int->float conversion is to_fp RNE (Go's conversion)",
                        "oracle: Go's own <, ==, +, -, *, /, % on the same symbolic operands inside the harness (encoded by the same engine as bvslt/bvult/fp.lt/... ), "
                        "i.e. the statement's 'exact mathematical order' and 'wrap modulo 2^64 as in Go'"],
    },
}
