// gosym: symbolic execution of harness functions against the real go/ssa
// of the package in -dir, loaded from the current working tree on every run.
package main

import (
	"runtime/pprof"
	"encoding/json"
	"flag"
	"fmt"
	"os"
	"path/filepath"
	"regexp"
	"sort"
	"strings"
	"sync"
	"time"

	"golang.org/x/tools/go/packages"
	"golang.org/x/tools/go/ssa"
	"golang.org/x/tools/go/ssa/ssautil"

	"gosym/interp"
)

type HarnessReport struct {
	Name        string              `json:"name"`
	Paths       int                 `json:"paths"`
	ByStatus    map[string]int      `json:"by_status"`
	Steps       int64               `json:"steps"`
	SymBranches int                 `json:"sym_branches"`
	Proved      map[string]int      `json:"proved"`
	Concrete    map[string]int      `json:"concrete_true"`
	Reached     []string            `json:"reached"`
	Violations  []interp.Violation  `json:"violations"`
	ViolCount   map[string]int      `json:"violation_counts"`
	KnownHits   []interp.Violation  `json:"known_hits"`
	Problems    []string            `json:"problems"`
	Samples     []map[string]string `json:"samples"`
	PathSamples []PathSample        `json:"path_samples"`
	Funcs       []string            `json:"funcs"`
	WallS       float64             `json:"wall_s"`
	Queries     int                 `json:"queries"`
	Sat         int                 `json:"sat"`
	Unsat       int                 `json:"unsat"`
	Unknown     int                 `json:"unknown"`
	SolverS     float64             `json:"solver_s"`
	Observes    [][]string          `json:"observes,omitempty"`
	Truncated   bool                `json:"truncated"`
	CacheHits   int                 `json:"cache_hits"`
	EnumQueries int                 `json:"enum_queries"`
}

// PathSample is one completed, violation-free path with a model of its path
// condition: replayed natively, it must reach the same labels and fail nothing.
type PathSample struct {
	Inputs  map[string]string `json:"inputs"`
	Reached []string          `json:"reached"`
}

type Report struct {
	Dir       string            `json:"dir"`
	LoadS     float64           `json:"load_s"`
	BrokenFiles []string        `json:"broken_files"`
	InitSteps int64             `json:"init_steps"`
	Solver    string            `json:"solver"`
	Harnesses []*HarnessReport  `json:"harnesses"`
	Stubs     map[string]int    `json:"stubs"`
	Error     string            `json:"error,omitempty"`
}

func main() {
	dir := flag.String("dir", "/repo/zygo", "package directory")
	hdir := flag.String("harness", "/verif/harness", "directory with zz_verif_*.go harness files")
	extra := flag.String("extra", "", "comma-separated extra Go files (generated harness data) added to the overlay")
	run := flag.String("run", "^vh_", "regexp selecting harness functions")
	workers := flag.Int("workers", 16, "parallel workers")
	solver := flag.String("solver", "z3", "z3 | z3-new | cvc5")
	timeout := flag.Int("timeout", 20000, "solver timeout per query (ms)")
	maxSteps := flag.Int64("max-steps", 5_000_000, "SSA step budget per path")
	unwind := flag.Int("unwind", 64, "max symbolic decisions per branch site per path")
	maxPaths := flag.Int("max-paths", 2_000_000, "path cap per harness")
	out := flag.String("out", "", "write JSON report here")
	known := flag.String("known", "", "known findings jsonl")
	concrete := flag.String("concrete", "", "JSON file: {harness, values} run one concrete path and print observes")
	trace := flag.Bool("trace", false, "trace SSA")
	quiet := flag.Bool("quiet", true, "suppress target output")
	tags := flag.String("tags", "verif", "build tags")
	tier := flag.Int("tier", 0, "0 quick, 1 thorough (vTier())")
	noCache := flag.Bool("no-cache", false, "disable the per-worker query cache")
	cpuprof := flag.String("cpuprofile", "", "write CPU profile")
	flag.Parse()
	interp.Tier = *tier
	if *cpuprof != "" {
		f, _ := os.Create(*cpuprof)
		pprof.StartCPUProfile(f)
		defer pprof.StopCPUProfile()
	}

	rep := &Report{Dir: *dir, Solver: *solver}
	fail := func(err error) {
		rep.Error = err.Error()
		fmt.Fprintln(os.Stderr, "gosym:", err)
		writeReport(*out, rep)
		os.Exit(2)
	}

	t0 := time.Now()
	overlay := map[string][]byte{}
	files, _ := filepath.Glob(filepath.Join(*hdir, "zz_verif_*.go"))
	if *extra != "" {
		files = append(files, strings.Split(*extra, ",")...)
	}
	for _, f := range files {
		if strings.HasSuffix(f, "_test.go") {
			continue
		}
		b, err := os.ReadFile(f)
		if err != nil {
			fail(err)
		}
		overlay[filepath.Join(*dir, filepath.Base(f))] = b
	}
	cfg := &packages.Config{
		Mode:       packages.LoadAllSyntax,
		Dir:        *dir,
		Overlay:    overlay,
		BuildFlags: []string{"-tags=" + *tags},
		Env:        append(os.Environ(), "GOFLAGS=-mod=mod", "GOPROXY=off"),
	}
	// A harness file that no longer type-checks against the tree (API drift)
	// is dropped and reported as HARNESS-BROKEN; the remaining harness files
	// still run.  Errors outside the harness files are fatal.
	var pkgs []*packages.Package
	for attempt := 0; ; attempt++ {
		var err error
		pkgs, err = packages.Load(cfg, ".")
		if err != nil {
			fail(err)
		}
		nerr := 0
		brokenNow := map[string]bool{}
		foreign := false
		packages.Visit(pkgs, nil, func(p *packages.Package) {
			for _, e := range p.Errors {
				if nerr < 20 {
					fmt.Fprintf(os.Stderr, "HARNESS-BROKEN %s\n", e)
				}
				nerr++
				file := e.Pos
				if k := strings.Index(file, ":"); k > 0 {
					file = file[:k]
				}
				if _, isHarness := overlay[file]; isHarness && filepath.Base(file) != "zz_verif_base.go" && filepath.Base(file) != "zz_verif_eval.go" {
					brokenNow[file] = true
				} else {
					foreign = true
				}
			}
		})
		if nerr == 0 {
			break
		}
		if len(brokenNow) == 0 || (foreign && attempt > 0) || attempt > 4 {
			fail(fmt.Errorf("package load: %d errors", nerr))
		}
		for f := range brokenNow {
			delete(overlay, f)
			rep.BrokenFiles = append(rep.BrokenFiles, filepath.Base(f))
		}
	}
	prog, spkgs := ssautil.AllPackages(pkgs, ssa.InstantiateGenerics)
	prog.Build()
	mainpkg := spkgs[0]
	rep.LoadS = time.Since(t0).Seconds()

	var knownRegions []interp.KnownRegion
	if *known != "" {
		if b, err := os.ReadFile(*known); err == nil {
			for _, line := range strings.Split(string(b), "\n") {
				line = strings.TrimSpace(line)
				if line == "" || !strings.HasPrefix(line, "{") {
					continue
				}
				var k interp.KnownRegion
				if err := json.Unmarshal([]byte(line), &k); err == nil && k.Harness != "" {
					knownRegions = append(knownRegions, k)
				}
			}
		}
	}

	opts := interp.Options{MaxSteps: *maxSteps, Unwind: *unwind, SolverKind: *solver, SolverTO: *timeout, Quiet: *quiet, Trace: *trace, Known: knownRegions, NoCache: *noCache}

	re := regexp.MustCompile(*run)
	var names []string
	for name, m := range mainpkg.Members {
		if f, ok := m.(*ssa.Function); ok && strings.HasPrefix(name, "vh_") && re.MatchString(name) && f.Signature.Params().Len() == 0 {
			names = append(names, name)
		}
	}
	sort.Strings(names)
	if len(names) == 0 {
		fail(fmt.Errorf("no harness matches %q", *run))
	}

	if *concrete != "" {
		runConcrete(prog, mainpkg, opts, *concrete, rep, *out)
		return
	}

	// workers
	nw := *workers
	ws := make([]*interp.Worker, nw)
	var wg sync.WaitGroup
	errs := make([]error, nw)
	for k := 0; k < nw; k++ {
		wg.Add(1)
		go func(k int) {
			defer wg.Done()
			w, err := interp.NewWorker(prog, mainpkg, opts)
			if err != nil {
				errs[k] = err
				return
			}
			if err := w.Init(); err != nil {
				errs[k] = err
				return
			}
			ws[k] = w
		}(k)
	}
	wg.Wait()
	for _, e := range errs {
		if e != nil {
			fail(e)
		}
	}
	rep.InitSteps = ws[0].InitSteps
	defer func() {
		for _, w := range ws {
			w.Close()
		}
	}()

	exit := 0
	for _, name := range names {
		hr := runHarness(ws, name, *maxPaths)
		rep.Harnesses = append(rep.Harnesses, hr)
		fmt.Fprintf(os.Stderr, "%-40s paths=%d %v viol=%d known=%d q=%d (%.1fs solver) wall=%.1fs\n", name, hr.Paths, hr.ByStatus, len(hr.Violations), len(hr.KnownHits), hr.Queries, hr.SolverS, hr.WallS)
		for _, p := range hr.Problems {
			fmt.Fprintf(os.Stderr, "   problem: %s\n", firstLines(p, 12))
		}
		if len(hr.Violations) > 0 && exit == 0 {
			exit = 1
		}
		if len(hr.Problems) > 0 {
			exit = 2
		}
	}
	rep.Stubs = map[string]int{}
	for _, w := range ws {
		for k, v := range w.StubsHit() {
			rep.Stubs[k] += v
		}
	}
	writeReport(*out, rep)
	if *cpuprof != "" {
		pprof.StopCPUProfile()
	}
	os.Exit(exit)
}

func firstLines(s string, n int) string {
	ls := strings.Split(s, "\n")
	if len(ls) > n {
		ls = ls[:n]
	}
	return strings.Join(ls, "\n      ")
}

func writeReport(path string, rep *Report) {
	b, _ := json.MarshalIndent(rep, "", " ")
	if path == "" {
		return
	}
	os.WriteFile(path, b, 0644)
}

func runHarness(ws []*interp.Worker, name string, maxPaths int) *HarnessReport {
	t0 := time.Now()
	hr := &HarnessReport{Name: name, ByStatus: map[string]int{}, Proved: map[string]int{}, Concrete: map[string]int{}}
	var mu sync.Mutex
	cond := sync.NewCond(&mu)
	queue := []interp.WorkItem{{}}
	active := 0
	reached := map[string]bool{}
	funcs := map[string]bool{}
	violSeen := map[string]int{}
	violSeen2 := map[string]int{}
	okPaths := 0
	maxSamples := 6
	if v := os.Getenv("GOSYM_SAMPLES"); v != "" {
		fmt.Sscanf(v, "%d", &maxSamples)
	}
	sampleStride := 37
	problemSeen := map[string]bool{}
	q0, s0, u0, k0 := 0, 0, 0, 0
	var d0 time.Duration
	for _, w := range ws {
		if w.Solver != nil {
			q0 += w.Solver.Queries
			s0 += w.Solver.Sat
			u0 += w.Solver.Unsat
			k0 += w.Solver.Unknown + w.Solver.Errors
			d0 += w.Solver.SolverDur
		}
	}
	var wg sync.WaitGroup
	stopProgress := make(chan struct{})
	if os.Getenv("GOSYM_PROGRESS") != "" {
		go func() {
			tk := time.NewTicker(5 * time.Second)
			defer tk.Stop()
			for {
				select {
				case <-stopProgress:
					return
				case <-tk.C:
					mu.Lock()
					fmt.Fprintf(os.Stderr, "  [%s] %.0fs paths=%d queue=%d active=%d %v viol=%v\n", name, time.Since(t0).Seconds(), hr.Paths, len(queue), active, hr.ByStatus, violSeen)
					mu.Unlock()
				}
			}
		}()
	}
	for _, w := range ws {
		wg.Add(1)
		go func(w *interp.Worker) {
			defer wg.Done()
			for {
				mu.Lock()
				for len(queue) == 0 && active > 0 {
					cond.Wait()
				}
				if len(queue) == 0 && active == 0 {
					mu.Unlock()
					cond.Broadcast()
					return
				}
				item := queue[len(queue)-1]
				queue = queue[:len(queue)-1]
				active++
				mu.Unlock()

				res := w.RunPath(name, item, nil)

				mu.Lock()
				active--
				hr.Paths++
				hr.ByStatus[res.Status]++
				hr.Steps += res.Steps
				hr.SymBranches += res.SymBranches
				hr.CacheHits += res.CacheHits
				hr.EnumQueries += res.EnumQueries
				for k, v := range res.Proved {
					hr.Proved[k] += v
				}
				for k, v := range res.Concrete {
					hr.Concrete[k] += v
				}
				for k := range res.Reached {
					reached[k] = true
				}
				for k := range res.Funcs {
					funcs[k] = true
				}
				for _, v := range res.Violations {
					key := v.Label + "|" + v.Msg
					violSeen[key]++
					ck, _ := json.Marshal(v.Choices)
					key2 := key + "|" + string(ck)
					violSeen2[key2]++
					if violSeen2[key2] <= 1 && len(hr.Violations) < 60 {
						hr.Violations = append(hr.Violations, v)
					}
				}
				for _, v := range res.KnownHits {
					key := "known|" + v.Label + "|" + v.Known
					violSeen[key]++
					if violSeen[key] <= 2 {
						hr.KnownHits = append(hr.KnownHits, v)
					}
				}
				switch res.Status {
				case "ok", "assume", "infeasible", "violation":
				default:
					key := res.Status + ": " + firstLines(res.Msg, 3)
					if !problemSeen[key] && len(hr.Problems) < 20 {
						problemSeen[key] = true
						hr.Problems = append(hr.Problems, res.Status+": "+res.Msg+fmt.Sprintf(" [decisions=%v]", res.Decisions))
					}
				}
				if len(hr.Samples) < 5 && res.Status == "ok" && len(res.Sample) > 0 {
					hr.Samples = append(hr.Samples, res.Sample)
				}
				if res.Status == "ok" && len(res.Violations) == 0 && len(res.KnownHits) == 0 && res.Sample != nil {
					// reservoir-style spread: keep every k-th completed path
					okPaths++
					if len(hr.PathSamples) < maxSamples || okPaths%sampleStride == 0 {
						var reached []string
						for k := range res.Reached {
							reached = append(reached, k)
						}
						sort.Strings(reached)
						ps := PathSample{Inputs: res.Sample, Reached: reached}
						if len(hr.PathSamples) < maxSamples {
							hr.PathSamples = append(hr.PathSamples, ps)
						} else {
							hr.PathSamples[(okPaths/sampleStride)%maxSamples] = ps
						}
					}
				}
				if len(hr.Observes) < 5 && len(res.Observes) > 0 {
					hr.Observes = append(hr.Observes, res.Observes)
				}
				if hr.Paths+len(queue) < maxPaths {
					queue = append(queue, res.Forks...)
				} else if len(res.Forks) > 0 {
					hr.Truncated = true
				}
				mu.Unlock()
				cond.Broadcast()
			}
		}(w)
	}
	wg.Wait()
	close(stopProgress)
	if hr.Truncated {
		hr.Problems = append(hr.Problems, "path cap reached: exploration truncated")
	}
	hr.ViolCount = violSeen
	for k := range reached {
		hr.Reached = append(hr.Reached, k)
	}
	sort.Strings(hr.Reached)
	for k := range funcs {
		hr.Funcs = append(hr.Funcs, k)
	}
	sort.Strings(hr.Funcs)
	for _, w := range ws {
		if w.Solver != nil {
			hr.Queries += w.Solver.Queries
			hr.Sat += w.Solver.Sat
			hr.Unsat += w.Solver.Unsat
			hr.Unknown += w.Solver.Unknown + w.Solver.Errors
			d0 -= w.Solver.SolverDur
		}
	}
	hr.Queries -= q0
	hr.Sat -= s0
	hr.Unsat -= u0
	hr.Unknown -= k0
	hr.SolverS = (-d0).Seconds()
	hr.WallS = time.Since(t0).Seconds()
	return hr
}

type concreteSpec struct {
	Harness string            `json:"harness"`
	Values  map[string]uint64 `json:"values"`
}

func runConcrete(prog *ssa.Program, mainpkg *ssa.Package, opts interp.Options, path string, rep *Report, out string) {
	b, err := os.ReadFile(path)
	if err != nil {
		fmt.Fprintln(os.Stderr, err)
		os.Exit(2)
	}
	var specs []concreteSpec
	if err := json.Unmarshal(b, &specs); err != nil {
		var one concreteSpec
		if err2 := json.Unmarshal(b, &one); err2 != nil {
			fmt.Fprintln(os.Stderr, err)
			os.Exit(2)
		}
		specs = []concreteSpec{one}
	}
	opts.SolverKind = "none"
	w, err := interp.NewWorker(prog, mainpkg, opts)
	if err != nil {
		fmt.Fprintln(os.Stderr, err)
		os.Exit(2)
	}
	if err := w.Init(); err != nil {
		fmt.Fprintln(os.Stderr, err)
		os.Exit(2)
	}
	type outRec struct {
		Harness  string   `json:"harness"`
		Status   string   `json:"status"`
		Msg      string   `json:"msg,omitempty"`
		Observes []string `json:"observes"`
		Failed   []string `json:"failed"`
		Reached  []string `json:"reached"`
	}
	var recs []outRec
	for _, sp := range specs {
		res := w.RunPath(sp.Harness, interp.WorkItem{}, sp.Values)
		r := outRec{Harness: sp.Harness, Status: res.Status, Msg: res.Msg, Observes: res.Observes}
		for _, v := range res.Violations {
			r.Failed = append(r.Failed, v.Label+":"+v.Msg)
		}
		for k := range res.Reached {
			r.Reached = append(r.Reached, k)
		}
		sort.Strings(r.Reached)
		recs = append(recs, r)
	}
	jb, _ := json.MarshalIndent(recs, "", " ")
	if out != "" {
		os.WriteFile(out, jb, 0644)
	} else {
		fmt.Println(string(jb))
	}
}
