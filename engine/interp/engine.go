package interp

// Engine API: workers, package initialisation, harness runs.

import (
	"fmt"
	"go/token"
	"go/types"
	"os"
	"runtime"
	"strings"
	"sync"

	"golang.org/x/tools/go/ssa"
)

var gRuntimeErrorString types.Type

var reflectOnce sync.Once

type Options struct {
	MaxSteps     int64
	Unwind       int
	SolverKind   string
	SolverTO     int // ms
	Quiet        bool
	Trace        bool
	Known        []KnownRegion
	NoCache      bool
}

type Worker struct {
	i       *interpreter
	prog    *ssa.Program
	pkg     *ssa.Package
	opts    Options
	Solver  *Solver
	initOK  bool
	InitSteps int64
	qcache  map[qkey]qval
	CacheHits int
	EnumQ   int
}

var defaultInitAllowed = []string{
	"unicode", "unicode/utf8", "unicode/utf16", "strconv", "strings", "bytes", "sort", "math", "math/bits", "io",
	"internal/bytealg", "internal/stringslite", "slices", "cmp", "iter", "maps", "hash/fnv", "hash",
	"internal/itoa", "internal/byteorder", "container/list", "encoding/base64", "encoding/binary", "encoding/hex", "bufio",
}

func NewWorker(prog *ssa.Program, mainpkg *ssa.Package, opts Options) (*Worker, error) {
	i := &interpreter{
		prog:       prog,
		globals:    make(map[*ssa.Global]*value),
		sizes:      &types.StdSizes{WordSize: 8, MaxAlign: 8},
		goroutines: 1,
		quiet:      opts.Quiet,
		maxSteps:   1 << 62,
		stubsHit:   map[string]int{},
		initAllowed: map[string]bool{},
		regexCache: map[string]*regexModel{},
		infoCache:  map[*ssa.Function]*funcInfo{},
		extCache:   map[*ssa.Function]extEntry2{},
	}
	if opts.Trace {
		i.mode |= EnableTracing
	}
	for _, p := range defaultInitAllowed {
		i.initAllowed[p] = true
	}
	i.initAllowed[mainpkg.Pkg.Path()] = true
	runtimePkg := prog.ImportedPackage("runtime")
	if runtimePkg != nil {
		i.runtimeErrorString = runtimePkg.Type("errorString").Object().Type()
		gRuntimeErrorString = i.runtimeErrorString
	}
	initReflect(i)
	if u := prog.ImportedPackage("unicode/utf8"); u != nil {
		i.utf8DecodeRuneInString = u.Func("DecodeRuneInString")
		i.utf8AppendRune = u.Func("AppendRune")
	}
	for _, pkg := range prog.AllPackages() {
		for _, m := range pkg.Members {
			if g, ok := m.(*ssa.Global); ok {
				cell := zero(mustDeref(g.Type()))
				i.globals[g] = &cell
			}
		}
	}
	w := &Worker{i: i, prog: prog, pkg: mainpkg, opts: opts}
	if opts.SolverKind != "none" {
		s, err := NewSolver(opts.SolverKind, opts.SolverTO)
		if err != nil {
			return nil, err
		}
		w.Solver = s
	}
	return w, nil
}

func (w *Worker) Close() { w.Solver.Close() }

// protect runs f, classifying how it ended.
func (w *Worker) protect(f func()) (status string, msg string) {
	defer func() {
		p := recover()
		if p == nil {
			return
		}
		switch p := p.(type) {
		case pathAbort:
			switch p.kind {
			case abAssume:
				status = "assume"
			case abInfeasible:
				status = "infeasible"
			case abBudget:
				status = "budget"
			case abUnwound:
				status = "unwound"
			case abUnsupported:
				status = "unsupported"
			case abStopAfterViolation:
				status = "violation-stop"
			case abDone:
				status = "ok"
			default:
				status = "engine"
			}
			msg = p.msg
		case engineFault:
			status, msg = "engine", p.msg+"\n"+p.stack
		case targetPanic:
			status, msg = "panic", w.i.panicString(p)
		case exitPanic:
			status, msg = "exit", fmt.Sprint(int(p))
		default:
			buf := make([]byte, 1<<14)
			n := runtime.Stack(buf, false)
			status, msg = "engine", fmt.Sprintf("%v\n%s", p, buf[:n])
		}
	}()
	f()
	return "ok", ""
}

func (i *interpreter) panicString(p targetPanic) string {
	switch v := p.v.(type) {
	case iface:
		switch s := v.v.(type) {
		case string:
			if v.t == i.runtimeErrorString {
				return "runtime error: " + s
			}
			return s
		}
		// error value: try calling Error()
		if v.t != nil {
			if m := i.prog.LookupMethod(v.t, nil, "Error"); m != nil {
				var out value
				func() {
					defer func() { recover() }()
					out = call(i, nil, token.NoPos, m, []value{v.v})
				}()
				if s, ok := out.(string); ok {
					return s
				}
			}
		}
		return fmt.Sprintf("(%v) %s", v.t, toString(v.v))
	}
	return toString(p.v)
}

// Init runs the package initialisers (allow-listed packages only).
func (w *Worker) Init() error {
	i := w.i
	i.steps = 0
	st, msg := w.protect(func() {
		call(i, nil, token.NoPos, w.pkg.Func("init"), nil)
	})
	w.InitSteps = i.steps
	if st != "ok" {
		return fmt.Errorf("init: %s: %s", st, msg)
	}
	w.initOK = true
	return nil
}

// RunSetup runs a niladic function once, outside any path (concrete).
func (w *Worker) RunSetup(name string) error {
	fn := w.pkg.Func(name)
	if fn == nil {
		return fmt.Errorf("no function %s", name)
	}
	i := w.i
	i.steps = 0
	st, msg := w.protect(func() { call(i, nil, token.NoPos, fn, nil) })
	if st != "ok" {
		return fmt.Errorf("%s: %s: %s", name, st, msg)
	}
	return nil
}

// RunPath executes harness function name along the path identified by item.
func (w *Worker) RunPath(name string, item WorkItem, concrete map[string]uint64) *PathResult {
	fn := w.pkg.Func(name)
	i := w.i
	if fn == nil {
		return &PathResult{Status: "engine", Msg: "no harness function " + name}
	}
	if w.Solver != nil {
		w.Solver.ResetPath()
	}
	ps := newPathState(name, item, w.Solver, w.opts.MaxSteps, w.opts.Unwind)
	ps.known = w.opts.Known
	if w.qcache == nil {
		w.qcache = map[qkey]qval{}
	}
	if len(w.qcache) > 2_000_000 {
		w.qcache = map[qkey]qval{}
	}
	if !w.opts.NoCache {
		ps.qcache = w.qcache
	}
	if concrete != nil {
		ps.concreteMode = true
		ps.concrete = concrete
	}
	i.path = ps
	i.steps = 0
	i.maxSteps = w.opts.MaxSteps
	i.funcsSeen = map[*ssa.Function]bool{}
	i.effects = nil
	i.permCnt = 0
	i.mapOrderMode = false
	i.formatOpaque = false
	mark := len(i.journal)
	i.journalOn = true
	st, msg := w.protect(func() { call(i, nil, token.NoPos, fn, nil) })
	i.killCoroutines()
	i.journalOn = false
	i.rollback(mark)
	i.path = nil
	i.maxSteps = 1 << 62
	res := ps.res
	res.Steps = i.steps
	w.CacheHits += res.CacheHits
	w.EnumQ += res.EnumQueries
	res.Decisions = ps.log
	if st == "panic" {
		ps.panicViolation(msg)
		st = "ok"
		if len(res.Violations) > 0 {
			st = "violation"
		}
	}
	if st == "violation-stop" {
		st = "ok"
	}
	if st == "unwound" {
		var n int
		if _, err := fmt.Sscanf(msg, "symbolic branch site %d", &n); err == nil {
			msg += " at " + w.prog.Fset.Position(token.Pos(n)).String()
		}
	}
	if st == "budget" && ps.budgetFails != "" {
		ps.res.Violations = append(ps.res.Violations, ps.mkViolation(ps.budgetFails, "step budget exhausted: the evaluation did not return", "", ps.model))
		st = "violation"
	}
	if st == "budget" && ps.budgetOK {
		st = "ok"
		res.Reached["step-budget-exhausted(accepted)"] = true
	}
	if st == "ok" && ps.pos < len(ps.prefix) {
		st, msg = "engine", fmt.Sprintf("replay divergence: path ended after %d of %d prefix decisions", ps.pos, len(ps.prefix))
	}
	if res.Unknowns > 0 && st == "ok" {
		st = "unknown"
		msg = res.Msg
	}
	res.Status = st
	if msg != "" {
		res.Msg = msg
	}
	if ps.concreteMode {
		res.Sample = map[string]string{}
	} else {
		res.Sample = ps.sample()
	}
	for f := range i.funcsSeen {
		res.Funcs[f.String()] = true
	}
	i.funcsSeen = nil
	return res
}

func (w *Worker) StubsHit() map[string]int { return w.i.stubsHit }

type extEntry struct {
	fn externalFn
	ok bool
}

// externalFor returns the model for fn, if any.  (nil, true) means "skip".
func (i *interpreter) externalFor(fn *ssa.Function) (externalFn, bool) {
	if e, hit := i.extCache[fn]; hit {
		if e.ok && e.fn != nil {
			i.stubsHit[e.name]++
		}
		return e.fn, e.ok
	}
	f, ok := i.externalFor1(fn)
	name := ""
	if ok && f != nil {
		name = fn.String()
	}
	i.extCache[fn] = extEntry2{f, ok, name}
	return f, ok
}

type extEntry2 struct {
	fn   externalFn
	ok   bool
	name string
}

func (i *interpreter) externalFor1(fn *ssa.Function) (externalFn, bool) {
	if fn.Parent() != nil {
		return nil, false
	}
	if fn.Synthetic == "package initializer" && fn.Pkg != nil {
		if !i.initAllowed[fn.Pkg.Pkg.Path()] {
			return nil, true
		}
		return nil, false
	}
	name := fn.String()
	if o := fn.Origin(); o != nil && o.String() == "iter.Pull" {
		elemT := fn.TypeArgs()[0]
		return func(fr *frame, args []value) value { return iterPull(fr, args, elemT) }, true
	}
	if ext := externals[name]; ext != nil {
		i.stubsHit[name]++
		return ext, true
	}
	// the target's one piece of unsafe header arithmetic (zygo/unsafe.go: a
	// []byte aliasing a string's bytes, documented read-only) cannot be
	// executed; it is modelled by its contract, the conversion []byte(s)
	if fn.Pkg != nil && fn.Signature.Recv() == nil && fn.Name() == "UnsafeStringToByteSlice" && strings.HasSuffix(fn.Pkg.Pkg.Path(), "/zygo") {
		i.stubsHit[name]++
		return func(fr *frame, args []value) value {
			b := strBytes(args[0])
			out := make([]value, len(b))
			copy(out, b)
			return out
		}, true
	}
	// harness intrinsics live in the main package under any import path
	if fn.Pkg != nil && fn.Signature.Recv() == nil && strings.HasPrefix(fn.Name(), "v") {
		if ext := intrinsics[fn.Name()]; ext != nil {
			return ext, true
		}
	}
	if fn.Blocks == nil {
		if fn.Pkg != nil {
			p := fn.Pkg.Pkg.Path()
			if effectPkgs[p] {
				return effectStub(fn), true
			}
		}
	}
	if fn.Pkg != nil && effectPkgs[fn.Pkg.Pkg.Path()] && fn.Signature.Recv() == nil && token.IsExported(fn.Name()) {
		i.stubsHit[name]++
		return effectStub(fn), true
	}
	return nil, false
}

var _ = os.Stderr
