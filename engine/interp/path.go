package interp

// Path state and the re-execution (decision-log) scheduler primitives.

import (
	"fmt"
	"go/token"
	"sort"
	"strings"
)

type Decision struct {
	Val    int  `json:"v"`
	N      int  `json:"n"`
	Forced bool `json:"f,omitempty"`
}

type abortKind int

const (
	abAssume abortKind = iota // assumption false / infeasible: path pruned (not a failure)
	abInfeasible
	abBudget
	abUnwound
	abUnsupported
	abStopAfterViolation
	abEngine
	abKill // coroutine teardown
	abDone // harness called vDone(): normal early end
)

type pathAbort struct {
	kind abortKind
	msg  string
}

func (p pathAbort) String() string { return fmt.Sprintf("pathAbort(%d,%s)", p.kind, p.msg) }

type Violation struct {
	Harness   string            `json:"harness"`
	Label     string            `json:"label"`
	Msg       string            `json:"msg,omitempty"`
	Pos       string            `json:"pos,omitempty"`
	Model     map[string]uint64 `json:"-"`
	Inputs    map[string]string `json:"inputs"`
	Decisions []Decision        `json:"decisions"`
	Choices   map[string]int    `json:"choices"`
	Known     string            `json:"known,omitempty"`
}

type WorkItem struct {
	Prefix []Decision
	Model  map[string]uint64
}

type inputVar struct {
	name string
	t    *Term
	kind string // "int64","uint8","bool","float64",...
}

type KnownRegion struct {
	Harness string `json:"harness"`
	Label   string `json:"label"`
	Region  string `json:"region"` // SMT-LIB Bool over input names; "" = whole label
	What    string `json:"what"`
	Prop    string `json:"property"`
}

type PathResult struct {
	Status      string // "ok","assume","infeasible","budget","unwound","unsupported","engine","violation"
	Msg         string
	Steps       int64
	Forks       []WorkItem
	Violations  []Violation
	KnownHits   []Violation
	Proved      map[string]int // assertion label -> queries proved unsat on this path
	Concrete    map[string]int // assertion label -> concretely true
	Reached     map[string]bool
	Unknowns    int
	Decisions   []Decision
	SymBranches int
	Observes    []string
	Sample      map[string]string
	Funcs       map[string]bool
}

type pathState struct {
	harness string
	prefix  []Decision
	pos     int
	log     []Decision
	solver  *Solver
	model   map[string]uint64
	pcs     []*Term
	inputs  []inputVar
	byName  map[string]*Term
	choices map[string]int
	steps   int64
	max     int64
	unwind  int
	siteCnt map[token.Pos]int
	res     *PathResult
	known   []KnownRegion
	nameCnt map[string]int
	effects []string
	concrete map[string]uint64 // concrete replay mode: name -> value (nil when symbolic)
	concreteMode bool
	budgetOK bool
}

func newPathState(harness string, item WorkItem, s *Solver, maxSteps int64, unwind int) *pathState {
	ps := &pathState{harness: harness, prefix: item.Prefix, solver: s, model: item.Model,
		byName: map[string]*Term{}, choices: map[string]int{}, max: maxSteps, unwind: unwind,
		siteCnt: map[token.Pos]int{}, nameCnt: map[string]int{},
		res: &PathResult{Proved: map[string]int{}, Concrete: map[string]int{}, Reached: map[string]bool{}, Funcs: map[string]bool{}}}
	if ps.model == nil {
		ps.model = map[string]uint64{}
	}
	return ps
}

func (ps *pathState) abort(k abortKind, msg string) {
	panic(pathAbort{k, msg})
}

// newVar registers a named input variable.
func (ps *pathState) newVar(name string, s Sort, kind string) *Term {
	if c := ps.nameCnt[name]; c > 0 {
		ps.nameCnt[name] = c + 1
		name = fmt.Sprintf("%s#%d", name, c)
	} else {
		ps.nameCnt[name] = 1
	}
	v := mkVar(sanitize(name), s)
	ps.inputs = append(ps.inputs, inputVar{name, v, kind})
	ps.byName[name] = v
	return v
}

func sanitize(n string) string {
	var sb strings.Builder
	sb.WriteString("|")
	for _, c := range n {
		if c == '|' || c == '\\' {
			c = '_'
		}
		sb.WriteRune(c)
	}
	sb.WriteString("|")
	return sb.String()
}

func (ps *pathState) evalModel(t *Term) (uint64, bool) {
	if ps.model == nil {
		return 0, false
	}
	return evalTerm(t, ps.model, map[*Term]uint64{})
}

func (ps *pathState) addPC(c *Term) {
	ps.pcs = append(ps.pcs, c)
	ps.solver.Assert(c)
}

// branch decides a symbolic condition, forking the path when both sides
// are feasible.
func (ps *pathState) branch(cond *Term, site token.Pos) bool {
	if cond.isConst() {
		return cond.val == 1
	}
	if ps.pos < len(ps.prefix) {
		d := ps.prefix[ps.pos]
		ps.pos++
		ps.log = append(ps.log, d)
		if !d.Forced {
			if d.Val == 1 {
				ps.addPC(cond)
			} else {
				ps.addPC(tNot(cond))
			}
		}
		return d.Val == 1
	}
	ps.res.SymBranches++
	if site != token.NoPos {
		ps.siteCnt[site]++
		if ps.siteCnt[site] > ps.unwind {
			ps.abort(abUnwound, fmt.Sprintf("symbolic branch site taken more than %d times", ps.unwind))
		}
	}
	var feasT, feasF string
	var mT, mF map[string]uint64
	if mv, ok := ps.evalModel(cond); ok {
		if mv == 1 {
			feasT, mT = "sat", ps.model
			feasF, mF = ps.solver.CheckWith(true, nil, tNot(cond))
		} else {
			feasF, mF = "sat", ps.model
			feasT, mT = ps.solver.CheckWith(true, nil, cond)
		}
	} else {
		feasT, mT = ps.solver.CheckWith(true, nil, cond)
		feasF, mF = ps.solver.CheckWith(true, nil, tNot(cond))
	}
	if feasT != "sat" && feasT != "unsat" {
		ps.res.Unknowns++
		ps.res.Msg = "solver: " + feasT
	}
	if feasF != "sat" && feasF != "unsat" {
		ps.res.Unknowns++
		ps.res.Msg = "solver: " + feasF
	}
	switch {
	case feasT == "sat" && feasF == "sat":
		alt := append(append([]Decision{}, ps.log...), Decision{Val: 0, N: 2})
		ps.res.Forks = append(ps.res.Forks, WorkItem{alt, mF})
		ps.log = append(ps.log, Decision{Val: 1, N: 2})
		ps.addPC(cond)
		ps.model = mT
		return true
	case feasT == "sat":
		ps.log = append(ps.log, Decision{Val: 1, N: 2, Forced: feasF == "unsat"})
		if feasF != "unsat" {
			ps.addPC(cond)
		}
		ps.model = mT
		return true
	case feasF == "sat":
		ps.log = append(ps.log, Decision{Val: 0, N: 2, Forced: feasT == "unsat"})
		if feasT != "unsat" {
			ps.addPC(tNot(cond))
		}
		ps.model = mF
		return false
	case feasT == "unsat" && feasF == "unsat":
		ps.abort(abInfeasible, "both sides infeasible")
	}
	// unknown on a side and the other not sat: cannot continue soundly
	ps.abort(abUnsupported, "solver unknown at branch: "+feasT+"/"+feasF)
	return false
}

// choice is an n-ary case split that needs no solver.
func (ps *pathState) choice(name string, n int) int {
	if n <= 0 {
		ps.abort(abAssume, "empty choice")
	}
	if n == 1 {
		ps.choices[name] = 0
		return 0
	}
	if ps.concreteMode {
		v := int(ps.concrete[name])
		ps.choices[name] = v
		return v
	}
	if ps.pos < len(ps.prefix) {
		d := ps.prefix[ps.pos]
		ps.pos++
		ps.log = append(ps.log, d)
		ps.choices[name] = d.Val
		return d.Val
	}
	for k := n - 1; k >= 1; k-- {
		alt := append(append([]Decision{}, ps.log...), Decision{Val: k, N: n})
		ps.res.Forks = append(ps.res.Forks, WorkItem{alt, ps.model})
	}
	ps.log = append(ps.log, Decision{Val: 0, N: n})
	ps.choices[name] = 0
	return 0
}

func (ps *pathState) assume(c value) {
	switch c := c.(type) {
	case bool:
		if !c {
			ps.abort(abAssume, "assumption false")
		}
	case *Term:
		if mv, ok := ps.evalModel(c); ok && mv == 1 {
			ps.addPC(c)
			return
		}
		r, m := ps.solver.CheckWith(true, nil, c)
		switch r {
		case "sat":
			ps.addPC(c)
			ps.model = m
		case "unsat":
			ps.abort(abAssume, "assumption infeasible")
		default:
			ps.res.Unknowns++
			ps.abort(abUnsupported, "solver unknown at assume: "+r)
		}
	}
}

func (ps *pathState) mkViolation(label, msg, pos string, m map[string]uint64) Violation {
	v := Violation{Harness: ps.harness, Label: label, Msg: msg, Pos: pos, Model: m,
		Inputs: map[string]string{}, Decisions: append([]Decision{}, ps.log...), Choices: map[string]int{}}
	for k, c := range ps.choices {
		v.Choices[k] = c
	}
	memo := map[*Term]uint64{}
	for _, in := range ps.inputs {
		val, _ := evalTerm(in.t, m, memo)
		v.Inputs[in.name] = fmt.Sprintf("%s:%d", in.kind, val)
	}
	return v
}

func (ps *pathState) sample() map[string]string {
	out := map[string]string{}
	memo := map[*Term]uint64{}
	for _, in := range ps.inputs {
		val, _ := evalTerm(in.t, ps.model, memo)
		out[in.name] = fmt.Sprintf("%s:%d", in.kind, val)
	}
	for k, c := range ps.choices {
		out["choice:"+k] = fmt.Sprint(c)
	}
	return out
}

// knownRaw returns the negated region predicates of known findings for label.
func (ps *pathState) knownFor(label string) (regions []KnownRegion) {
	for _, k := range ps.known {
		if k.Harness == ps.harness && k.Label == label {
			regions = append(regions, k)
		}
	}
	return
}

// regionApplicable reports whether every |name| mentioned in the region is
// a declared input on this path.
func (ps *pathState) regionSMT(r KnownRegion) (string, bool) {
	txt := r.Region
	if txt == "" {
		return "true", true
	}
	// names are written as |name| in the region text
	i := 0
	for {
		j := strings.IndexByte(txt[i:], '|')
		if j < 0 {
			break
		}
		k := strings.IndexByte(txt[i+j+1:], '|')
		if k < 0 {
			return "", false
		}
		name := txt[i+j+1 : i+j+1+k]
		t, ok := ps.byName[name]
		if !ok {
			return "", false
		}
		ps.solver.ref(t)
		i = i + j + 1 + k + 1
	}
	return txt, true
}

// assert checks the property cond on this path.
func (ps *pathState) assert(c value, label string, pos string) {
	var cond *Term
	switch c := c.(type) {
	case bool:
		if c {
			ps.res.Concrete[label]++
			return
		}
		cond = termFalse
	case *Term:
		cond = c
	}
	neg := tNot(cond)
	// a model of pc ∧ ¬cond?
	var res string
	var m map[string]uint64
	if cond.isConst() && cond.val == 0 {
		// need any model of the path condition
		if ps.model != nil {
			res, m = "sat", ps.model
		} else {
			res, m = ps.solver.CheckWith(true, nil)
		}
	} else {
		res, m = ps.solver.CheckWith(true, nil, neg)
	}
	switch res {
	case "unsat":
		ps.res.Proved[label]++
		return
	case "sat":
		regions := ps.knownFor(label)
		if len(regions) > 0 {
			// is there a violation outside every known region?
			var raws []string
			appl := 0
			for _, r := range regions {
				if txt, ok := ps.regionSMT(r); ok {
					raws = append(raws, "(not "+txt+")")
					appl++
				}
			}
			if appl > 0 {
				r2, m2 := ps.solver.CheckWith(true, raws, neg)
				if r2 == "unsat" {
					v := ps.mkViolation(label, "", pos, m)
					v.Known = regions[0].What
					ps.res.KnownHits = append(ps.res.KnownHits, v)
					goto cont
				} else if r2 == "sat" {
					m = m2
				} else {
					ps.res.Unknowns++
				}
			}
		}
		ps.res.Violations = append(ps.res.Violations, ps.mkViolation(label, "", pos, m))
	default:
		ps.res.Unknowns++
		ps.res.Msg = "solver at assert " + label + ": " + res
	}
cont:
	// continue under the assumption that the property holds, if possible
	if cond.isConst() {
		ps.abort(abStopAfterViolation, label)
	}
	if mv, ok := ps.evalModel(cond); ok && mv == 1 {
		ps.addPC(cond)
		return
	}
	r, m3 := ps.solver.CheckWith(true, nil, cond)
	if r == "sat" {
		ps.addPC(cond)
		ps.model = m3
		return
	}
	ps.abort(abStopAfterViolation, label)
}

// panicViolation records an escaping target panic.
func (ps *pathState) panicViolation(msg string) {
	label := "panic"
	m := ps.model
	regions := ps.knownFor(label)
	for _, r := range regions {
		if r.Region == "" || strings.Contains(msg, r.Region) {
			v := ps.mkViolation(label, msg, "", m)
			v.Known = r.What
			ps.res.KnownHits = append(ps.res.KnownHits, v)
			return
		}
	}
	ps.res.Violations = append(ps.res.Violations, ps.mkViolation(label, msg, "", m))
}

func sortedKeys[M ~map[string]V, V any](m M) []string {
	ks := make([]string, 0, len(m))
	for k := range m {
		ks = append(ks, k)
	}
	sort.Strings(ks)
	return ks
}

// concretize forces term t to a concrete value by enumerating its feasible
// values: the chosen value is recorded in the decision log (N=-1: t==Val
// taken; N=-2: t!=Val, keep enumerating), so replay is deterministic.
func (ps *pathState) concretize(t *Term) uint64 {
	if t.isConst() {
		return t.val
	}
	w := t.sort
	mkc := func(v uint64) *Term {
		if w.k == sBool {
			return mkBool(v == 1)
		}
		return &Term{op: "const", sort: w, val: v & mask64(w)}
	}
	for n := 0; ; n++ {
		if ps.pos < len(ps.prefix) {
			d := ps.prefix[ps.pos]
			ps.pos++
			ps.log = append(ps.log, d)
			c := tEq(t, mkc(uint64(d.Val)))
			if d.N == -1 {
				if !d.Forced {
					ps.addPC(c)
				}
				return uint64(d.Val)
			}
			ps.addPC(tNot(c))
			continue
		}
		if n > 300 {
			ps.abort(abUnwound, "concretize: more than 300 values")
		}
		v, ok := ps.evalModel(t)
		if !ok {
			r, m := ps.solver.CheckWith(true, nil)
			if r != "sat" {
				ps.res.Unknowns++
				ps.abort(abUnsupported, "solver "+r+" in concretize")
			}
			ps.model = m
			v, _ = ps.evalModel(t)
		}
		c := tEq(t, mkc(v))
		r, m2 := ps.solver.CheckWith(true, nil, tNot(c))
		switch r {
		case "sat":
			alt := append(append([]Decision{}, ps.log...), Decision{Val: int(v), N: -2})
			ps.res.Forks = append(ps.res.Forks, WorkItem{alt, m2})
		case "unsat":
		default:
			ps.res.Unknowns++
			ps.res.Msg = "solver: " + r
		}
		ps.res.SymBranches++
		ps.log = append(ps.log, Decision{Val: int(v), N: -1, Forced: r == "unsat"})
		if r != "unsat" {
			ps.addPC(c)
		}
		return v
	}
}
