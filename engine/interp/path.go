package interp

// Path state and the re-execution (decision-log) scheduler primitives.

import (
	"fmt"
	"go/token"
	"sort"
	"strings"
)

type Decision struct {
	Val    int  `json:"v"`
	N      int  `json:"n"`
	Forced bool `json:"f,omitempty"`
}

type abortKind int

const (
	abAssume abortKind = iota // assumption false / infeasible: path pruned (not a failure)
	abInfeasible
	abBudget
	abUnwound
	abUnsupported
	abStopAfterViolation
	abEngine
	abKill // coroutine teardown
	abDone // harness called vDone(): normal early end
)

type pathAbort struct {
	kind abortKind
	msg  string
}

func (p pathAbort) String() string { return fmt.Sprintf("pathAbort(%d,%s)", p.kind, p.msg) }

type Violation struct {
	Harness   string            `json:"harness"`
	Label     string            `json:"label"`
	Msg       string            `json:"msg,omitempty"`
	Pos       string            `json:"pos,omitempty"`
	Model     map[string]uint64 `json:"-"`
	Inputs    map[string]string `json:"inputs"`
	Decisions []Decision        `json:"decisions"`
	Choices   map[string]int    `json:"choices"`
	Known     string            `json:"known,omitempty"`
}

type WorkItem struct {
	Prefix []Decision
	Model  map[string]uint64
}

type inputVar struct {
	name string
	t    *Term
	kind string // "int64","uint8","bool","float64",...
}

type KnownRegion struct {
	Harness string `json:"harness"`
	Label   string `json:"label"`
	Region  string `json:"region"` // SMT-LIB Bool over input names; "" = whole label
	What    string `json:"what"`
	Prop    string `json:"property"`
}

type PathResult struct {
	Status      string // "ok","assume","infeasible","budget","unwound","unsupported","engine","violation"
	Msg         string
	Steps       int64
	Forks       []WorkItem
	Violations  []Violation
	KnownHits   []Violation
	Proved      map[string]int // assertion label -> queries proved unsat on this path
	Concrete    map[string]int // assertion label -> concretely true
	Reached     map[string]bool
	Unknowns    int
	Decisions   []Decision
	SymBranches int
	EnumQueries int
	CacheHits   int
	Observes    []string
	Sample      map[string]string
	Funcs       map[string]bool
}

type pathState struct {
	harness string
	prefix  []Decision
	pos     int
	log     []Decision
	solver  *Solver
	model   map[string]uint64
	pcs     []*Term
	inputs  []inputVar
	byName  map[string]*Term
	choices map[string]int
	steps   int64
	max     int64
	unwind  int
	siteCnt map[token.Pos]int
	res     *PathResult
	known   []KnownRegion
	nameCnt map[string]int
	pcVars  [][]*Term
	varMemo map[*Term][]*Term
	parent  map[*Term]*Term
	compSize map[*Term]int
	noEnum  bool
	qcache  map[qkey]qval
	doms    map[*Term]*domain
	effects []string
	concrete map[string]uint64 // concrete replay mode: name -> value (nil when symbolic)
	concreteMode bool
	budgetOK bool
	budgetFails string // label of the violation a step-budget exhaustion stands for ("" = machinery problem)
}

func newPathState(harness string, item WorkItem, s *Solver, maxSteps int64, unwind int) *pathState {
	ps := &pathState{harness: harness, prefix: item.Prefix, solver: s, model: item.Model,
		byName: map[string]*Term{}, choices: map[string]int{}, max: maxSteps, unwind: unwind,
		siteCnt: map[token.Pos]int{}, nameCnt: map[string]int{},
		res: &PathResult{Proved: map[string]int{}, Concrete: map[string]int{}, Reached: map[string]bool{}, Funcs: map[string]bool{}}}
	if ps.model == nil {
		ps.model = map[string]uint64{}
	}
	return ps
}

func (ps *pathState) abort(k abortKind, msg string) {
	panic(pathAbort{k, msg})
}

// newVar registers a named input variable.
func (ps *pathState) newVar(name string, s Sort, kind string) *Term {
	if c := ps.nameCnt[name]; c > 0 {
		ps.nameCnt[name] = c + 1
		name = fmt.Sprintf("%s#%d", name, c)
	} else {
		ps.nameCnt[name] = 1
	}
	v := mkVar(sanitize(name), s)
	ps.inputs = append(ps.inputs, inputVar{name, v, kind})
	ps.byName[name] = v
	return v
}

func sanitize(n string) string {
	var sb strings.Builder
	sb.WriteString("|")
	for _, c := range n {
		if c == '|' || c == '\\' {
			c = '_'
		}
		sb.WriteRune(c)
	}
	sb.WriteString("|")
	return sb.String()
}

func (ps *pathState) evalModel(t *Term) (uint64, bool) {
	if ps.model == nil {
		return 0, false
	}
	return evalTerm(t, ps.model, map[*Term]uint64{})
}

func (ps *pathState) addPC(c *Term) {
	ps.pcs = append(ps.pcs, c)
	ps.solver.Assert(c)
	vs := ps.varsOf(c)
	ps.pcVars = append(ps.pcVars, vs)
	for k := 1; k < len(vs); k++ {
		ps.union(vs[0], vs[k])
	}
}

// ---- independence + small-domain enumeration (avoids solver calls) ----

func (ps *pathState) varsOf(t *Term) []*Term {
	if vs, ok := ps.varMemo[t]; ok {
		return vs
	}
	var out []*Term
	collectVars(t, map[*Term]bool{}, &out)
	if ps.varMemo == nil {
		ps.varMemo = map[*Term][]*Term{}
	}
	ps.varMemo[t] = out
	return out
}

func (ps *pathState) find(v *Term) *Term {
	if ps.parent == nil {
		ps.parent = map[*Term]*Term{}
	}
	p, ok := ps.parent[v]
	if !ok || p == v {
		return v
	}
	r := ps.find(p)
	ps.parent[v] = r
	return r
}

func (ps *pathState) union(a, b *Term) {
	ra, rb := ps.find(a), ps.find(b)
	if ra != rb {
		if ps.compSize == nil {
			ps.compSize = map[*Term]int{}
		}
		na, nb := ps.compSize[ra], ps.compSize[rb]
		if na == 0 {
			na = 1
		}
		if nb == 0 {
			nb = 1
		}
		ps.parent[ra] = rb
		ps.compSize[rb] = na + nb
	}
}

func (ps *pathState) compCount(v *Term) int {
	r := ps.find(v)
	if n := ps.compSize[r]; n > 0 {
		return n
	}
	return 1
}

// domOf returns the values of the (<= 8 bit) variable v that satisfy every
// path-condition conjunct mentioning only v (incrementally maintained).
func (ps *pathState) domOf(v *Term) (*domain, bool) {
	if ps.doms == nil {
		ps.doms = map[*Term]*domain{}
	}
	d := ps.doms[v]
	if d == nil {
		n := uint64(1) << uint(v.sort.w)
		if v.sort.k == sBool {
			n = 2
		}
		d = &domain{}
		for x := uint64(0); x < n; x++ {
			d.vals = append(d.vals, x)
		}
		ps.doms[v] = d
	}
	m := map[string]uint64{}
	for ; d.npc < len(ps.pcs); d.npc++ {
		pvs := ps.pcVars[d.npc]
		if len(pvs) != 1 || pvs[0] != v {
			continue
		}
		c := ps.pcs[d.npc]
		keep := d.vals[:0]
		for _, x := range d.vals {
			m[v.name] = x
			r, ok := evalTerm(c, m, map[*Term]uint64{})
			if !ok {
				return nil, false
			}
			if r == 1 {
				keep = append(keep, x)
			}
		}
		d.vals = keep
	}
	return d, true
}

type domain struct {
	vals []uint64
	npc  int
}

// checkSat decides sat(pc ∧ extra) and returns a model of it.  When extra
// (with the constraints it depends on) involves a single variable of at most
// 8 bits, the answer is computed by enumeration instead of a solver call.
func (ps *pathState) checkSat(extra *Term) (string, map[string]uint64) {
	if ps.model != nil && !ps.noEnum {
		vs := ps.varsOf(extra)
		if len(vs) == 1 && vs[0].sort.k != sFP && vs[0].sort.w <= 8 {
			v := vs[0]
			if ps.compCount(v) == 1 {
				d, ok := ps.domOf(v)
				if !ok {
					goto solver
				}
				ps.res.EnumQueries++
				m := map[string]uint64{}
				for _, val := range d.vals {
					m[v.name] = val
					r, ok := evalTerm(extra, m, map[*Term]uint64{})
					if !ok {
						goto solver
					}
					if r == 1 {
						nm := make(map[string]uint64, len(ps.model)+1)
						for k2, v2 := range ps.model {
							nm[k2] = v2
						}
						nm[v.name] = val
						return "sat", nm
					}
				}
				return "unsat", nil
			}
		}
	}
solver:
	return ps.cachedCheck(extra)
}

type qkey struct{ a, b uint64 }

type qval struct {
	sat  bool
	vals map[string]uint64
}

// cachedCheck: independence slicing + per-worker query cache.  The verdict
// of sat(pc ∧ extra) depends only on the conjuncts sharing variables
// (transitively) with extra; that slice is hashed structurally and looked up.
func (ps *pathState) cachedCheck(extra *Term) (string, map[string]uint64) {
	cache := ps.qcache
	if cache == nil || ps.model == nil {
		return ps.solver.CheckWith(true, nil, extra)
	}
	vs := ps.varsOf(extra)
	if len(vs) == 0 {
		return ps.solver.CheckWith(true, nil, extra)
	}
	roots := map[*Term]bool{}
	for _, v := range vs {
		roots[ps.find(v)] = true
	}
	var ka, kb uint64
	n := 0
	for k, pvs := range ps.pcVars {
		if len(pvs) == 0 || !roots[ps.find(pvs[0])] {
			continue
		}
		h1, h2 := ps.pcs[k].hash()
		// order-independent combination
		ka += h1 * 0x9E3779B97F4A7C15
		kb ^= h2*0xC2B2AE3D27D4EB4F + h1
		n++
	}
	e1, e2 := extra.hash()
	key := qkey{ka ^ (e1 * 31) ^ uint64(n)<<56, kb + e2*17}
	if qv, ok := cache[key]; ok {
		ps.res.CacheHits++
		if !qv.sat {
			return "unsat", nil
		}
		nm := make(map[string]uint64, len(ps.model)+len(qv.vals))
		for k2, v2 := range ps.model {
			nm[k2] = v2
		}
		for k2, v2 := range qv.vals {
			nm[k2] = v2
		}
		return "sat", nm
	}
	res, m := ps.solver.CheckWith(true, nil, extra)
	switch res {
	case "unsat":
		cache[key] = qval{sat: false}
	case "sat":
		vals := map[string]uint64{}
		// values of the variables of the slice
		for k, pvs := range ps.pcVars {
			_ = k
			if len(pvs) == 0 || !roots[ps.find(pvs[0])] {
				continue
			}
			for _, pv := range pvs {
				vals[pv.name] = m[pv.name]
			}
		}
		for _, v := range vs {
			vals[v.name] = m[v.name]
		}
		cache[key] = qval{sat: true, vals: vals}
	}
	return res, m
}

// branch decides a symbolic condition, forking the path when both sides
// are feasible.
func (ps *pathState) branch(cond *Term, site token.Pos) bool {
	if cond.isConst() {
		return cond.val == 1
	}
	if ps.pos < len(ps.prefix) {
		d := ps.prefix[ps.pos]
		ps.pos++
		ps.log = append(ps.log, d)
		if !d.Forced {
			if d.Val == 1 {
				ps.addPC(cond)
			} else {
				ps.addPC(tNot(cond))
			}
		}
		return d.Val == 1
	}
	ps.res.SymBranches++
	var feasT, feasF string
	var mT, mF map[string]uint64
	if mv, ok := ps.evalModel(cond); ok {
		if mv == 1 {
			feasT, mT = "sat", ps.model
			feasF, mF = ps.checkSat(tNot(cond))
		} else {
			feasF, mF = "sat", ps.model
			feasT, mT = ps.checkSat(cond)
		}
	} else {
		feasT, mT = ps.checkSat(cond)
		feasF, mF = ps.checkSat(tNot(cond))
	}
	if feasT != "sat" && feasT != "unsat" {
		ps.res.Unknowns++
		ps.res.Msg = "solver: " + feasT
	}
	if feasF != "sat" && feasF != "unsat" {
		ps.res.Unknowns++
		ps.res.Msg = "solver: " + feasF
	}
	switch {
	case feasT == "sat" && feasF == "sat":
		// the unwinding bound counts genuine (two-sided) forks per site
		if site != token.NoPos {
			ps.siteCnt[site]++
			if ps.siteCnt[site] > ps.unwind {
				ps.abort(abUnwound, fmt.Sprintf("symbolic branch site %d taken more than %d times", int(site), ps.unwind))
			}
		}
		alt := append(append([]Decision{}, ps.log...), Decision{Val: 0, N: 2})
		ps.res.Forks = append(ps.res.Forks, WorkItem{alt, mF})
		ps.log = append(ps.log, Decision{Val: 1, N: 2})
		ps.addPC(cond)
		ps.model = mT
		return true
	case feasT == "sat":
		ps.log = append(ps.log, Decision{Val: 1, N: 2, Forced: feasF == "unsat"})
		if feasF != "unsat" {
			ps.addPC(cond)
		}
		ps.model = mT
		return true
	case feasF == "sat":
		ps.log = append(ps.log, Decision{Val: 0, N: 2, Forced: feasT == "unsat"})
		if feasT != "unsat" {
			ps.addPC(tNot(cond))
		}
		ps.model = mF
		return false
	case feasT == "unsat" && feasF == "unsat":
		ps.abort(abInfeasible, "both sides infeasible")
	}
	// unknown on a side and the other not sat: cannot continue soundly
	ps.abort(abUnsupported, "solver unknown at branch: "+feasT+"/"+feasF)
	return false
}

// choice is an n-ary case split that needs no solver.
func (ps *pathState) choice(name string, n int) int {
	if n <= 0 {
		ps.abort(abAssume, "empty choice")
	}
	if n == 1 {
		ps.choices[name] = 0
		return 0
	}
	if ps.concreteMode {
		v := int(ps.concrete["choice:"+name])
		ps.choices[name] = v
		return v
	}
	if ps.pos < len(ps.prefix) {
		d := ps.prefix[ps.pos]
		ps.pos++
		ps.log = append(ps.log, d)
		ps.choices[name] = d.Val
		return d.Val
	}
	for k := n - 1; k >= 1; k-- {
		alt := append(append([]Decision{}, ps.log...), Decision{Val: k, N: n})
		ps.res.Forks = append(ps.res.Forks, WorkItem{alt, ps.model})
	}
	ps.log = append(ps.log, Decision{Val: 0, N: n})
	ps.choices[name] = 0
	return 0
}

func (ps *pathState) assume(c value) {
	switch c := c.(type) {
	case bool:
		if !c {
			ps.abort(abAssume, "assumption false")
		}
	case *Term:
		if mv, ok := ps.evalModel(c); ok && mv == 1 {
			ps.addPC(c)
			return
		}
		r, m := ps.checkSat(c)
		switch r {
		case "sat":
			ps.addPC(c)
			ps.model = m
		case "unsat":
			ps.abort(abAssume, "assumption infeasible")
		default:
			ps.res.Unknowns++
			ps.abort(abUnsupported, "solver unknown at assume: "+r)
		}
	}
}

func (ps *pathState) mkViolation(label, msg, pos string, m map[string]uint64) Violation {
	v := Violation{Harness: ps.harness, Label: label, Msg: msg, Pos: pos, Model: m,
		Inputs: map[string]string{}, Decisions: append([]Decision{}, ps.log...), Choices: map[string]int{}}
	for k, c := range ps.choices {
		v.Choices[k] = c
	}
	memo := map[*Term]uint64{}
	for _, in := range ps.inputs {
		val, _ := evalTerm(in.t, m, memo)
		v.Inputs[in.name] = fmt.Sprintf("%s:%d", in.kind, val)
	}
	return v
}

func (ps *pathState) sample() map[string]string {
	out := map[string]string{}
	memo := map[*Term]uint64{}
	for _, in := range ps.inputs {
		val, _ := evalTerm(in.t, ps.model, memo)
		out[in.name] = fmt.Sprintf("%s:%d", in.kind, val)
	}
	for k, c := range ps.choices {
		out["choice:"+k] = fmt.Sprint(c)
	}
	return out
}

// knownRaw returns the negated region predicates of known findings for label.
func (ps *pathState) knownFor(label string) (regions []KnownRegion) {
	for _, k := range ps.known {
		if k.Harness == ps.harness && k.Label == label {
			regions = append(regions, k)
		}
	}
	return
}

// regionApplicable reports whether every |name| mentioned in the region is
// a declared input on this path.
func (ps *pathState) regionSMT(r KnownRegion) (string, bool) {
	txt := r.Region
	if txt == "" {
		return "true", true
	}
	// names are written as |name| in the region text
	i := 0
	for {
		j := strings.IndexByte(txt[i:], '|')
		if j < 0 {
			break
		}
		k := strings.IndexByte(txt[i+j+1:], '|')
		if k < 0 {
			return "", false
		}
		name := txt[i+j+1 : i+j+1+k]
		t, ok := ps.byName[name]
		if !ok {
			return "", false
		}
		ps.solver.ref(t)
		i = i + j + 1 + k + 1
	}
	return txt, true
}

// assert checks the property cond on this path.
func (ps *pathState) assert(c value, label string, pos string) {
	var cond *Term
	switch c := c.(type) {
	case bool:
		if c {
			ps.res.Concrete[label]++
			return
		}
		cond = termFalse
	case *Term:
		cond = c
	}
	neg := tNot(cond)
	// a model of pc ∧ ¬cond?
	var res string
	var m map[string]uint64
	if cond.isConst() && cond.val == 0 {
		// need any model of the path condition
		if ps.model != nil {
			res, m = "sat", ps.model
		} else {
			res, m = ps.solver.CheckWith(true, nil)
		}
	} else {
		res, m = ps.checkSat(neg)
	}
	switch res {
	case "unsat":
		ps.res.Proved[label]++
		return
	case "sat":
		regions := ps.knownFor(label)
		if len(regions) > 0 {
			// is there a violation outside every known region?
			var raws []string
			appl := 0
			for _, r := range regions {
				if txt, ok := ps.regionSMT(r); ok {
					raws = append(raws, "(not "+txt+")")
					appl++
				}
			}
			if appl > 0 {
				r2, m2 := ps.solver.CheckWith(true, raws, neg)
				if r2 == "unsat" {
					v := ps.mkViolation(label, "", pos, m)
					v.Known = regions[0].What
					ps.res.KnownHits = append(ps.res.KnownHits, v)
					goto cont
				} else if r2 == "sat" {
					m = m2
				} else {
					ps.res.Unknowns++
				}
			}
		}
		ps.res.Violations = append(ps.res.Violations, ps.mkViolation(label, "", pos, m))
	default:
		ps.res.Unknowns++
		ps.res.Msg = "solver at assert " + label + ": " + res
	}
cont:
	// continue under the assumption that the property holds, if possible
	if cond.isConst() {
		ps.abort(abStopAfterViolation, label)
	}
	if mv, ok := ps.evalModel(cond); ok && mv == 1 {
		ps.addPC(cond)
		return
	}
	r, m3 := ps.checkSat(cond)
	if r == "sat" {
		ps.addPC(cond)
		ps.model = m3
		return
	}
	ps.abort(abStopAfterViolation, label)
}

// panicViolation records an escaping target panic.
func (ps *pathState) panicViolation(msg string) {
	label := "panic"
	m := ps.model
	regions := ps.knownFor(label)
	for _, r := range regions {
		if r.Region == "" || strings.Contains(msg, r.Region) {
			v := ps.mkViolation(label, msg, "", m)
			v.Known = r.What
			ps.res.KnownHits = append(ps.res.KnownHits, v)
			return
		}
	}
	ps.res.Violations = append(ps.res.Violations, ps.mkViolation(label, msg, "", m))
}

func sortedKeys[M ~map[string]V, V any](m M) []string {
	ks := make([]string, 0, len(m))
	for k := range m {
		ks = append(ks, k)
	}
	sort.Strings(ks)
	return ks
}

// concretize forces term t to a concrete value by enumerating its feasible
// values: the chosen value is recorded in the decision log (N=-1: t==Val
// taken; N=-2: t!=Val, keep enumerating), so replay is deterministic.
func (ps *pathState) concretize(t *Term) uint64 {
	if t.isConst() {
		return t.val
	}
	w := t.sort
	mkc := func(v uint64) *Term {
		if w.k == sBool {
			return mkBool(v == 1)
		}
		return &Term{op: "const", sort: w, val: v & mask64(w)}
	}
	for n := 0; ; n++ {
		if ps.pos < len(ps.prefix) {
			d := ps.prefix[ps.pos]
			ps.pos++
			ps.log = append(ps.log, d)
			c := tEq(t, mkc(uint64(d.Val)))
			if d.N == -1 {
				if !d.Forced {
					ps.addPC(c)
				}
				return uint64(d.Val)
			}
			ps.addPC(tNot(c))
			continue
		}
		if n > 300 {
			ps.abort(abUnwound, "concretize: more than 300 values")
		}
		v, ok := ps.evalModel(t)
		if !ok {
			r, m := ps.solver.CheckWith(true, nil)
			if r != "sat" {
				ps.res.Unknowns++
				ps.abort(abUnsupported, "solver "+r+" in concretize")
			}
			ps.model = m
			v, _ = ps.evalModel(t)
		}
		c := tEq(t, mkc(v))
		r, m2 := ps.checkSat(tNot(c))
		switch r {
		case "sat":
			alt := append(append([]Decision{}, ps.log...), Decision{Val: int(v), N: -2})
			ps.res.Forks = append(ps.res.Forks, WorkItem{alt, m2})
		case "unsat":
		default:
			ps.res.Unknowns++
			ps.res.Msg = "solver: " + r
		}
		ps.res.SymBranches++
		ps.log = append(ps.log, Decision{Val: int(v), N: -1, Forced: r == "unsat"})
		if r != "unsat" {
			ps.addPC(c)
		}
		return v
	}
}
