package interp

// Deterministic, insertion-ordered maps with (possibly) symbolic keys, and
// the undo journal that lets one interpreter heap serve many paths.

import (
	"fmt"
	"go/token"
	"go/types"
)

type omap struct {
	keyType types.Type
	keys    []value
	vals    []value
	live    []bool
	n       int
	idx     map[any][]int // concrete-key fast path: hash key -> positions
	symKeys int           // live entries whose key has symbolic parts
}

func makeMap(kt types.Type, reserve int64) value {
	return &omap{keyType: kt, idx: map[any][]int{}}
}

// hashKey gives a Go-comparable key for a fully concrete map key.
func hashKey(kt types.Type, k value) any {
	switch k := k.(type) {
	case bool, int, int8, int16, int32, int64, uint, uint8, uint16, uint32, uint64, uintptr, float32, float64, complex64, complex128, string, *value, chan value:
		return k
	case iface:
		switch k.v.(type) {
		case nil:
			return "<nil-iface>"
		}
		return hash(kt, k.t, k.v)
	}
	return hash(kt, kt, k)
}

func (m *omap) find(fr *frame, k value) int {
	if m == nil {
		return -1
	}
	if !hasSym(k) {
		hk := hashKey(m.keyType, k)
		for _, p := range m.idx[hk] {
			if m.live[p] {
				if e, ok := equals(m.keyType, k, m.keys[p]).(bool); ok && e {
					return p
				}
			}
		}
		if m.symKeys == 0 {
			return -1
		}
		for p, key := range m.keys {
			if m.live[p] && hasSym(key) {
				if fr.i.truth(equals(m.keyType, k, key), token.NoPos) {
					return p
				}
			}
		}
		return -1
	}
	for p, key := range m.keys {
		if m.live[p] {
			if fr.i.truth(equals(m.keyType, k, key), token.NoPos) {
				return p
			}
		}
	}
	return -1
}

func (m *omap) lookup(fr *frame, k value) (value, bool) {
	p := m.find(fr, k)
	if p < 0 {
		return nil, false
	}
	return m.vals[p], true
}

func (m *omap) insert(fr *frame, k, v value) {
	if m == nil {
		panic(fr.i.runtimeError("assignment to entry in nil map"))
	}
	i := fr.i
	p := m.find(fr, k)
	if p >= 0 {
		old := m.vals[p]
		if i.journalOn {
			i.journal = append(i.journal, undo{fn: func() { m.vals[p] = old }})
		}
		m.vals[p] = v
		return
	}
	pos := len(m.keys)
	m.keys = append(m.keys, k)
	m.vals = append(m.vals, v)
	m.live = append(m.live, true)
	m.n++
	sym := hasSym(k)
	var hk any
	if sym {
		m.symKeys++
	} else {
		hk = hashKey(m.keyType, k)
		m.idx[hk] = append(m.idx[hk], pos)
	}
	if i.journalOn {
		i.journal = append(i.journal, undo{fn: func() {
			m.keys = m.keys[:pos]
			m.vals = m.vals[:pos]
			m.live = m.live[:pos]
			m.n--
			if sym {
				m.symKeys--
			} else {
				l := m.idx[hk]
				m.idx[hk] = l[:len(l)-1]
			}
		}})
	}
}

func (m *omap) delete(fr *frame, k value) {
	if m == nil {
		return
	}
	p := m.find(fr, k)
	if p < 0 {
		return
	}
	i := fr.i
	m.live[p] = false
	m.n--
	sym := hasSym(m.keys[p])
	if sym {
		m.symKeys--
	}
	if i.journalOn {
		i.journal = append(i.journal, undo{fn: func() {
			m.live[p] = true
			m.n++
			if sym {
				m.symKeys++
			}
		}})
	}
}

func (m *omap) len() int {
	if m == nil {
		return 0
	}
	return m.n
}

type omapIter struct {
	m    *omap
	pos  int
	perm []int // optional visiting order (nondeterministic-order mode)
}

func (it *omapIter) next() tuple {
	if it.m == nil {
		return tuple{false, nil, nil}
	}
	if it.perm != nil {
		for it.pos < len(it.perm) {
			p := it.perm[it.pos]
			it.pos++
			if p < len(it.m.keys) && it.m.live[p] {
				return tuple{true, it.m.keys[p], it.m.vals[p]}
			}
		}
		return tuple{false, nil, nil}
	}
	for it.pos < len(it.m.keys) {
		p := it.pos
		it.pos++
		if it.m.live[p] {
			return tuple{true, it.m.keys[p], it.m.vals[p]}
		}
	}
	return tuple{false, nil, nil}
}

// ---- undo journal ----

type undo struct {
	addr *value
	old  value
	fn   func()
}

// setCell writes *addr = v, journaling the old content.
func (i *interpreter) setCell(addr *value, v value) {
	if i.journalOn {
		i.journal = append(i.journal, undo{addr: addr, old: *addr})
	}
	*addr = v
}

func (i *interpreter) rollback(mark int) {
	for k := len(i.journal) - 1; k >= mark; k-- {
		u := i.journal[k]
		if u.fn != nil {
			u.fn()
		} else {
			*u.addr = u.old
		}
		i.journal[k] = undo{}
	}
	i.journal = i.journal[:mark]
}

var _ = fmt.Sprint
