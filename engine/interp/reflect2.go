package interp

// Addressable reflect.Values.
//
// x/tools' emulated reflect package represents a reflect.Value as the pair
// (type, value) and so has no notion of addressability: Set is a no-op and
// Addr does not exist.  zygomys' record <-> Go struct conversion
// (SexpToGoStructs, FillHashFromShadow, CallGoMethod) is a walk over
// addressable Values, so this file replaces that part of the model:
//
//	reflect.Value = structure{ rtype, v, rflag }
//
// where rflag carries the address of the variable the Value refers to (if the
// Value is addressable: obtained through Elem of a pointer, Field of an
// addressable struct, Index of a slice) and the read-only bit of Values
// obtained through unexported fields.  An addressable Value reads its
// variable on every access, so aliasing Values see each other's Sets.
// The payload is an ordinary interpreter value, so symbolic field contents
// pass through reflection unchanged.
//
// The panics of package reflect that zygomys can observe (and converts into
// script errors) are reproduced with reflect's own messages: ValueError for
// a call on the wrong Kind, Set of an unassignable type, Set/Addr on an
// unaddressable Value, Interface on a Value obtained through an unexported
// field.  They are raised as string panics (reflect raises *ValueError or
// string); the text printed with %v is the same.

import (
	"fmt"
	"go/token"
	"go/types"
	"reflect"

	"golang.org/x/tools/go/ssa"
)

type rflag struct {
	p  *value // the variable, nil when not addressable
	ro bool   // obtained through an unexported field
}

func mkRV(t types.Type, v value, p *value, ro bool) value {
	var f value
	if p != nil || ro {
		f = rflag{p, ro}
	}
	return structure{rtype{t}, v, f}
}

func rvFlag(v value) rflag {
	s := v.(structure)
	if len(s) > 2 {
		if f, ok := s[2].(rflag); ok {
			return f
		}
	}
	return rflag{}
}

func rvType(v value) types.Type {
	if r, ok := v.(structure)[0].(rtype); ok {
		return r.t
	}
	return nil
}

// rvGet returns the current value of v (reading the variable of an
// addressable Value).
func rvGet(v value) value {
	if f := rvFlag(v); f.p != nil {
		return load(rvType(v), f.p)
	}
	return v.(structure)[1]
}

func reflectPanic(format string, args ...any) {
	panic(targetPanic{iface{types.Typ[types.String], fmt.Sprintf(format, args...)}})
}

func rvKind(v value) reflect.Kind {
	t := rvType(v)
	if t == nil {
		return reflect.Invalid
	}
	return reflectKind(t)
}

func valueError(method string, k reflect.Kind) {
	if k == reflect.Invalid {
		reflectPanic("reflect: call of %s on zero Value", method)
	}
	reflectPanic("reflect: call of %s on %s Value", method, k.String())
}

func mustBe(v value, method string, kinds ...reflect.Kind) reflect.Kind {
	k := rvKind(v)
	for _, w := range kinds {
		if k == w {
			return k
		}
	}
	valueError(method, k)
	return k
}

func mustBeSettable(v value, method string) rflag {
	f := rvFlag(v)
	if rvType(v) == nil {
		valueError(method, reflect.Invalid)
	}
	if f.ro {
		reflectPanic("reflect: %s using value obtained using unexported field", method)
	}
	if f.p == nil {
		reflectPanic("reflect: %s using unaddressable value", method)
	}
	return f
}

var intKinds = []reflect.Kind{reflect.Int, reflect.Int8, reflect.Int16, reflect.Int32, reflect.Int64}
var uintKinds = []reflect.Kind{reflect.Uint, reflect.Uint8, reflect.Uint16, reflect.Uint32, reflect.Uint64, reflect.Uintptr}
var floatKinds = []reflect.Kind{reflect.Float32, reflect.Float64}

// reflectAssignable mirrors reflect's directlyAssignable/implements.
func reflectAssignable(dst, src types.Type) bool {
	if types.Identical(dst, src) {
		return true
	}
	if it, ok := dst.Underlying().(*types.Interface); ok {
		return types.Implements(src, it)
	}
	_, dn := dst.(*types.Named)
	_, sn := src.(*types.Named)
	if dn && sn {
		return false
	}
	if reflectKind(dst) != reflectKind(src) {
		return false
	}
	return types.Identical(dst.Underlying(), src.Underlying())
}

// rvAssignTo gives the interpreter value that stores Value x into a variable
// of type dst.
func rvAssignTo(x value, dst types.Type, context string) value {
	xt := rvType(x)
	if xt == nil {
		valueError(context, reflect.Invalid)
	}
	if rvFlag(x).ro {
		reflectPanic("reflect: %s using value obtained using unexported field", context)
	}
	if !reflectAssignable(dst, xt) {
		reflectPanic("%s: value of type %s is not assignable to type %s", contextShort(context), reflectTypeString(xt), reflectTypeString(dst))
	}
	xv := rvGet(x)
	if _, ok := dst.Underlying().(*types.Interface); ok {
		if _, isIface := xt.Underlying().(*types.Interface); isIface {
			return xv // already an interface value
		}
		return iface{xt, xv}
	}
	return xv
}

func contextShort(c string) string {
	switch c {
	case "reflect.Value.Set":
		return "reflect.Set"
	case "reflect.Value.SetMapIndex":
		return "reflect.Value.SetMapIndex"
	case "reflect.Value.Call":
		return "reflect: Call"
	case "reflect.Append":
		return "reflect.Append"
	}
	return c
}

func init() {
	ex := externals

	ex["reflect.ValueOf"] = func(fr *frame, args []value) value {
		itf := args[0].(iface)
		if itf.t == nil {
			return mkRV(nil, nil, nil, false)
		}
		return mkRV(itf.t, itf.v, nil, false)
	}
	ex["reflect.Zero"] = func(fr *frame, args []value) value {
		t := reflectArgType(args[0])
		return mkRV(t, zero(t), nil, false)
	}
	ex["reflect.New"] = func(fr *frame, args []value) value {
		t := reflectArgType(args[0])
		alloc := zero(t)
		return mkRV(types.NewPointer(t), &alloc, nil, false)
	}
	ex["(reflect.Value).IsValid"] = func(fr *frame, args []value) value {
		return rvType(args[0]) != nil
	}
	ex["(reflect.Value).Kind"] = func(fr *frame, args []value) value {
		return uint(rvKind(args[0]))
	}
	ex["(reflect.Value).Type"] = func(fr *frame, args []value) value {
		t := rvType(args[0])
		if t == nil {
			valueError("reflect.Value.Type", reflect.Invalid)
		}
		return makeReflectType(rtype{t})
	}
	ex["(reflect.Value).CanAddr"] = func(fr *frame, args []value) value {
		return rvFlag(args[0]).p != nil
	}
	ex["(reflect.Value).CanSet"] = func(fr *frame, args []value) value {
		f := rvFlag(args[0])
		return f.p != nil && !f.ro
	}
	ex["(reflect.Value).CanInterface"] = func(fr *frame, args []value) value {
		if rvType(args[0]) == nil {
			valueError("reflect.Value.CanInterface", reflect.Invalid)
		}
		return !rvFlag(args[0]).ro
	}
	ex["(reflect.Value).Addr"] = func(fr *frame, args []value) value {
		f := rvFlag(args[0])
		if f.p == nil {
			reflectPanic("reflect.Value.Addr of unaddressable value")
		}
		return mkRV(types.NewPointer(rvType(args[0])), f.p, nil, f.ro)
	}
	ex["(reflect.Value).UnsafeAddr"] = func(fr *frame, args []value) value {
		unsupported("reflect.Value.UnsafeAddr (access to an unexported struct field)")
		return nil
	}
	ex["(reflect.Value).Elem"] = func(fr *frame, args []value) value {
		v := args[0]
		f := rvFlag(v)
		switch mustBe(v, "reflect.Value.Elem", reflect.Interface, reflect.Pointer) {
		case reflect.Interface:
			x := rvGet(v).(iface)
			if x.t == nil {
				return mkRV(nil, nil, nil, false)
			}
			return mkRV(x.t, x.v, nil, f.ro)
		default:
			x, _ := rvGet(v).(*value)
			if x == nil {
				return mkRV(nil, nil, nil, false)
			}
			return mkRV(rvType(v).Underlying().(*types.Pointer).Elem(), nil, x, f.ro)
		}
	}
	ex["(reflect.Value).NumField"] = func(fr *frame, args []value) value {
		mustBe(args[0], "reflect.Value.NumField", reflect.Struct)
		return rvType(args[0]).Underlying().(*types.Struct).NumFields()
	}
	ex["(reflect.Value).Field"] = func(fr *frame, args []value) value {
		v := args[0]
		mustBe(v, "reflect.Value.Field", reflect.Struct)
		st := rvType(v).Underlying().(*types.Struct)
		i := args[1].(int)
		if i < 0 || i >= st.NumFields() {
			reflectPanic("reflect: Field index out of range")
		}
		return rvField(v, st, i)
	}
	ex["(reflect.Value).FieldByName"] = func(fr *frame, args []value) value {
		v := args[0]
		mustBe(v, "reflect.Value.FieldByName", reflect.Struct)
		name := fr.i.concreteString(args[1])
		obj, index, _ := types.LookupFieldOrMethod(rvType(v), true, nil, name)
		if fld, ok := obj.(*types.Var); !ok || !fld.IsField() {
			// unexported names of other packages need the package: retry per package of the struct's fields
			obj = nil
			if n, ok := rvType(v).(*types.Named); ok && n.Obj().Pkg() != nil {
				obj, index, _ = types.LookupFieldOrMethod(rvType(v), true, n.Obj().Pkg(), name)
			}
			if fld, ok := obj.(*types.Var); !ok || !fld.IsField() {
				return mkRV(nil, nil, nil, false)
			}
		}
		cur := v
		for k, ix := range index {
			if k > 0 && rvKind(cur) == reflect.Pointer {
				x, _ := rvGet(cur).(*value)
				if x == nil {
					reflectPanic("reflect: indirection through nil pointer to embedded struct")
				}
				cur = mkRV(rvType(cur).Underlying().(*types.Pointer).Elem(), nil, x, rvFlag(cur).ro)
			}
			cur = rvField(cur, rvType(cur).Underlying().(*types.Struct), ix)
		}
		return cur
	}
	ex["(reflect.Value).Len"] = func(fr *frame, args []value) value {
		v := args[0]
		switch mustBe(v, "reflect.Value.Len", reflect.Array, reflect.Chan, reflect.Map, reflect.Slice, reflect.String, reflect.Pointer) {
		case reflect.Array:
			return len(rvGet(v).(array))
		case reflect.Map:
			m, _ := rvGet(v).(*omap)
			if m == nil {
				return 0
			}
			return m.n
		case reflect.Slice:
			return len(rvGet(v).([]value))
		case reflect.String:
			return strLen(rvGet(v))
		}
		unsupported("reflect.Value.Len of %s", rvKind(v))
		return nil
	}
	ex["(reflect.Value).Cap"] = func(fr *frame, args []value) value {
		v := args[0]
		switch mustBe(v, "reflect.Value.Cap", reflect.Array, reflect.Chan, reflect.Slice, reflect.Pointer) {
		case reflect.Array:
			return len(rvGet(v).(array))
		case reflect.Slice:
			return cap(rvGet(v).([]value))
		}
		unsupported("reflect.Value.Cap of %s", rvKind(v))
		return nil
	}
	ex["(reflect.Value).Index"] = func(fr *frame, args []value) value {
		v := args[0]
		i := args[1].(int)
		f := rvFlag(v)
		switch mustBe(v, "reflect.Value.Index", reflect.Array, reflect.Slice, reflect.String) {
		case reflect.Slice:
			s := rvGet(v).([]value)
			if i < 0 || i >= len(s) {
				reflectPanic("reflect: slice index out of range")
			}
			return mkRV(rvType(v).Underlying().(*types.Slice).Elem(), nil, &s[i], f.ro)
		case reflect.Array:
			et := rvType(v).Underlying().(*types.Array).Elem()
			if f.p != nil {
				a := (*f.p).(array)
				if i < 0 || i >= len(a) {
					reflectPanic("reflect: array index out of range")
				}
				return mkRV(et, nil, &a[i], f.ro)
			}
			a := rvGet(v).(array)
			if i < 0 || i >= len(a) {
				reflectPanic("reflect: array index out of range")
			}
			return mkRV(et, a[i], nil, f.ro)
		default:
			s := rvGet(v)
			if i < 0 || i >= strLen(s) {
				reflectPanic("reflect: string index out of range")
			}
			return mkRV(types.Typ[types.Uint8], strByteAt(s, i), nil, f.ro)
		}
	}
	ex["(reflect.Value).IsNil"] = func(fr *frame, args []value) value {
		v := args[0]
		mustBe(v, "reflect.Value.IsNil", reflect.Chan, reflect.Func, reflect.Interface, reflect.Map, reflect.Pointer, reflect.Slice, reflect.UnsafePointer)
		switch x := rvGet(v).(type) {
		case nil:
			return true
		case *value:
			return x == nil
		case chan value:
			return x == nil
		case *omap:
			return x == nil
		case iface:
			return x.t == nil
		case []value:
			return x == nil
		case *ssa.Function:
			return x == nil
		case *ssa.Builtin:
			return x == nil
		case *closure:
			return x == nil
		default:
			unsupported("reflect.Value.IsNil(%T)", x)
		}
		return nil
	}
	ex["(reflect.Value).Interface"] = func(fr *frame, args []value) value {
		return rvInterface(args[0])
	}
	ex["(reflect.Value).Int"] = func(fr *frame, args []value) value {
		v := args[0]
		mustBe(v, "reflect.Value.Int", intKinds...)
		return conv(fr, types.Typ[types.Int64], rvType(v), rvGet(v))
	}
	ex["(reflect.Value).Uint"] = func(fr *frame, args []value) value {
		v := args[0]
		mustBe(v, "reflect.Value.Uint", uintKinds...)
		return conv(fr, types.Typ[types.Uint64], rvType(v), rvGet(v))
	}
	ex["(reflect.Value).Float"] = func(fr *frame, args []value) value {
		v := args[0]
		mustBe(v, "reflect.Value.Float", floatKinds...)
		return conv(fr, types.Typ[types.Float64], rvType(v), rvGet(v))
	}
	ex["(reflect.Value).Bool"] = func(fr *frame, args []value) value {
		mustBe(args[0], "reflect.Value.Bool", reflect.Bool)
		return rvGet(args[0])
	}
	ex["(reflect.Value).String"] = func(fr *frame, args []value) value {
		v := args[0]
		switch rvKind(v) {
		case reflect.Invalid:
			return "<invalid Value>"
		case reflect.String:
			return rvGet(v)
		}
		return "<" + reflectTypeString(rvType(v)) + " Value>"
	}
	ex["(reflect.Value).Bytes"] = func(fr *frame, args []value) value {
		v := args[0]
		mustBe(v, "reflect.Value.Bytes", reflect.Slice)
		if b, ok := rvType(v).Underlying().(*types.Slice).Elem().Underlying().(*types.Basic); !ok || b.Kind() != types.Uint8 {
			reflectPanic("reflect.Value.Bytes of non-byte slice")
		}
		return rvGet(v)
	}
	ex["(reflect.Value).Set"] = func(fr *frame, args []value) value {
		v, x := args[0], args[1]
		f := mustBeSettable(v, "reflect.Value.Set")
		store(fr.i, rvType(v), f.p, copyVal(rvAssignTo(x, rvType(v), "reflect.Value.Set")))
		return nil
	}
	setScalar := func(name string, src types.Type, kinds []reflect.Kind) externalFn {
		return func(fr *frame, args []value) value {
			v := args[0]
			f := mustBeSettable(v, "reflect.Value."+name)
			mustBe(v, "reflect.Value."+name, kinds...)
			store(fr.i, rvType(v), f.p, conv(fr, rvType(v), src, args[1]))
			return nil
		}
	}
	ex["(reflect.Value).SetInt"] = setScalar("SetInt", types.Typ[types.Int64], intKinds)
	ex["(reflect.Value).SetUint"] = setScalar("SetUint", types.Typ[types.Uint64], uintKinds)
	ex["(reflect.Value).SetFloat"] = setScalar("SetFloat", types.Typ[types.Float64], floatKinds)
	ex["(reflect.Value).SetString"] = func(fr *frame, args []value) value {
		v := args[0]
		f := mustBeSettable(v, "reflect.Value.SetString")
		mustBe(v, "reflect.Value.SetString", reflect.String)
		store(fr.i, rvType(v), f.p, args[1])
		return nil
	}
	ex["(reflect.Value).SetBool"] = func(fr *frame, args []value) value {
		v := args[0]
		f := mustBeSettable(v, "reflect.Value.SetBool")
		mustBe(v, "reflect.Value.SetBool", reflect.Bool)
		store(fr.i, rvType(v), f.p, args[1])
		return nil
	}
	ex["(reflect.Value).SetBytes"] = func(fr *frame, args []value) value {
		v := args[0]
		f := mustBeSettable(v, "reflect.Value.SetBytes")
		mustBe(v, "reflect.Value.SetBytes", reflect.Slice)
		if b, ok := rvType(v).Underlying().(*types.Slice).Elem().Underlying().(*types.Basic); !ok || b.Kind() != types.Uint8 {
			reflectPanic("reflect.Value.SetBytes of non-byte slice")
		}
		store(fr.i, rvType(v), f.p, args[1])
		return nil
	}
	ex["(reflect.Value).OverflowInt"] = func(fr *frame, args []value) value {
		v := args[0]
		mustBe(v, "reflect.Value.OverflowInt", intKinds...)
		t := rvType(v)
		i64 := types.Typ[types.Int64]
		back := conv(fr, i64, t, conv(fr, t, i64, args[1]))
		return vNot(equals(i64, back, args[1]))
	}
	ex["(reflect.Value).OverflowUint"] = func(fr *frame, args []value) value {
		v := args[0]
		mustBe(v, "reflect.Value.OverflowUint", uintKinds...)
		t := rvType(v)
		u64 := types.Typ[types.Uint64]
		back := conv(fr, u64, t, conv(fr, t, u64, args[1]))
		return vNot(equals(u64, back, args[1]))
	}
	ex["reflect.Append"] = func(fr *frame, args []value) value {
		s := args[0]
		mustBe(s, "reflect.Append", reflect.Slice)
		et := rvType(s).Underlying().(*types.Slice).Elem()
		old := rvGet(s).([]value)
		out := make([]value, len(old), len(old)+len(args[1].([]value)))
		copy(out, old)
		for _, x := range args[1].([]value) {
			out = append(out, copyVal(rvAssignTo(x, et, "reflect.Append")))
		}
		return mkRV(rvType(s), out, nil, false)
	}
	ex["reflect.MakeMap"] = func(fr *frame, args []value) value {
		t := reflectArgType(args[0])
		mt, ok := t.Underlying().(*types.Map)
		if !ok {
			reflectPanic("reflect.MakeMapWithSize of non-map type")
		}
		return mkRV(t, makeMap(mt.Key(), 0), nil, false)
	}
	ex["(reflect.Value).SetMapIndex"] = func(fr *frame, args []value) value {
		v, k, e := args[0], args[1], args[2]
		mustBe(v, "reflect.Value.SetMapIndex", reflect.Map)
		if rvFlag(v).ro {
			reflectPanic("reflect: reflect.Value.SetMapIndex using value obtained using unexported field")
		}
		mt := rvType(v).Underlying().(*types.Map)
		m, _ := rvGet(v).(*omap)
		kv := rvAssignTo(k, mt.Key(), "reflect.Value.SetMapIndex")
		if rvType(e) == nil {
			if m != nil {
				m.delete(fr, kv)
			}
			return nil
		}
		ev := rvAssignTo(e, mt.Elem(), "reflect.Value.SetMapIndex")
		if m == nil {
			panic(fr.i.runtimeError("assignment to entry in nil map"))
		}
		m.insert(fr, kv, copyVal(ev))
		return nil
	}
	ex["(reflect.Value).MapIndex"] = func(fr *frame, args []value) value {
		v, k := args[0], args[1]
		mustBe(v, "reflect.Value.MapIndex", reflect.Map)
		mt := rvType(v).Underlying().(*types.Map)
		m, _ := rvGet(v).(*omap)
		kv := rvAssignTo(k, mt.Key(), "reflect.Value.MapIndex")
		if m == nil {
			return mkRV(nil, nil, nil, false)
		}
		if e, ok := m.lookup(fr, kv); ok {
			return mkRV(mt.Elem(), copyVal(e), nil, rvFlag(v).ro)
		}
		return mkRV(nil, nil, nil, false)
	}
	ex["(reflect.Value).MapKeys"] = func(fr *frame, args []value) value {
		v := args[0]
		mustBe(v, "reflect.Value.MapKeys", reflect.Map)
		mt := rvType(v).Underlying().(*types.Map)
		m, _ := rvGet(v).(*omap)
		out := []value{}
		if m != nil {
			for p, k := range m.keys {
				if m.live[p] {
					out = append(out, mkRV(mt.Key(), copyVal(k), nil, rvFlag(v).ro))
				}
			}
		}
		return out
	}
	ex["(reflect.Value).NumMethod"] = func(fr *frame, args []value) value {
		t := rvType(args[0])
		if t == nil {
			valueError("reflect.Value.NumMethod", reflect.Invalid)
		}
		return len(exportedMethods(fr.i, t))
	}
	ex["(reflect.Value).Call"] = func(fr *frame, args []value) value {
		v := args[0]
		mustBe(v, "reflect.Value.Call", reflect.Func)
		if rvFlag(v).ro {
			reflectPanic("reflect: reflect.Value.Call using value obtained using unexported field")
		}
		sig := rvType(v).Underlying().(*types.Signature)
		fn := rvGet(v)
		if isNilFunc(fn) {
			reflectPanic("reflect: call of nil function")
		}
		in := args[1].([]value)
		np := sig.Params().Len()
		if sig.Variadic() {
			unsupported("reflect.Value.Call of a variadic function")
		}
		if len(in) < np {
			reflectPanic("reflect: Call with too few input arguments")
		}
		if len(in) > np {
			reflectPanic("reflect: Call with too many input arguments")
		}
		cargs := make([]value, np)
		for k := 0; k < np; k++ {
			pt := sig.Params().At(k).Type()
			xt := rvType(in[k])
			if xt == nil {
				reflectPanic("reflect: Call using zero Value argument")
			}
			if !reflectAssignable(pt, xt) {
				reflectPanic("reflect: Call using %s as type %s", reflectTypeString(xt), reflectTypeString(pt))
			}
			cargs[k] = copyVal(rvAssignTo(in[k], pt, "reflect.Value.Call"))
		}
		res := call(fr.i, fr, token.NoPos, fn, cargs)
		nr := sig.Results().Len()
		out := make([]value, 0, nr)
		switch nr {
		case 0:
		case 1:
			out = append(out, mkRV(sig.Results().At(0).Type(), res, nil, false))
		default:
			for k, r := range res.(tuple) {
				out = append(out, mkRV(sig.Results().At(k).Type(), r, nil, false))
			}
		}
		return out
	}
	ex["(reflect.Value).Pointer"] = func(fr *frame, args []value) value {
		v := args[0]
		mustBe(v, "reflect.Value.Pointer", reflect.Chan, reflect.Func, reflect.Map, reflect.Pointer, reflect.Slice, reflect.UnsafePointer)
		return ext۰reflect۰Value۰Pointer(fr, []value{structure{rtype{rvType(v)}, rvGet(v)}})
	}
	ex["reflect.Indirect"] = func(fr *frame, args []value) value {
		v := args[0]
		if rvKind(v) != reflect.Pointer {
			return v
		}
		return ex["(reflect.Value).Elem"](fr, []value{v})
	}
	ex["reflect.MakeSlice"] = func(fr *frame, args []value) value {
		t := reflectArgType(args[0])
		st, ok := t.Underlying().(*types.Slice)
		if !ok {
			reflectPanic("reflect.MakeSlice of non-slice type")
		}
		n, c := args[1].(int), args[2].(int)
		if n < 0 {
			reflectPanic("reflect.MakeSlice: negative len")
		}
		if c < 0 {
			reflectPanic("reflect.MakeSlice: negative cap")
		}
		if n > c {
			reflectPanic("reflect.MakeSlice: len > cap")
		}
		s := make([]value, c)
		for k := range s {
			s[k] = zero(st.Elem())
		}
		return mkRV(t, s[:n], nil, false)
	}
}

func reflectArgType(v value) types.Type {
	itf := v.(iface)
	r, ok := itf.v.(rtype)
	if !ok {
		panic(targetPanic{iface{gRuntimeErrorString, "invalid memory address or nil pointer dereference (nil reflect.Type)"}})
	}
	return r.t
}

func isNilFunc(fn value) bool {
	switch f := fn.(type) {
	case nil:
		return true
	case *ssa.Function:
		return f == nil
	case *closure:
		return f == nil
	case *ssa.Builtin:
		return f == nil
	}
	return false
}

func rvField(v value, st *types.Struct, i int) value {
	f := rvFlag(v)
	fld := st.Field(i)
	ro := f.ro || !fld.Exported()
	if f.p != nil {
		return mkRV(fld.Type(), nil, &(*f.p).(structure)[i], ro)
	}
	return mkRV(fld.Type(), rvGet(v).(structure)[i], nil, ro)
}

func rvInterface(v value) value {
	t := rvType(v)
	if t == nil {
		valueError("reflect.Value.Interface", reflect.Invalid)
	}
	if rvFlag(v).ro {
		reflectPanic("reflect.Value.Interface: cannot return value obtained from unexported field or method")
	}
	x := rvGet(v)
	if _, ok := t.Underlying().(*types.Interface); ok {
		// a Value of interface kind (a field or element of interface type)
		// yields the interface value it holds
		if itf, ok := x.(iface); ok {
			return itf
		}
		return iface{}
	}
	return iface{t, copyVal(x)}
}

// copyVal copies the aggregate parts of v (struct and array values are
// mutable in place once they sit in a variable).
func copyVal(v value) value {
	switch x := v.(type) {
	case structure:
		out := make(structure, len(x))
		for k := range x {
			out[k] = copyVal(x[k])
		}
		return out
	case array:
		out := make(array, len(x))
		for k := range x {
			out[k] = copyVal(x[k])
		}
		return out
	}
	return v
}
