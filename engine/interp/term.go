package interp

// Symbolic terms: an immutable DAG of SMT-LIB2 expressions over
// Bool, (_ BitVec w) and (_ FloatingPoint 11 53).
//
// Go machine integers are always bit-vectors of their width (never
// mathematical integers); float64 is the IEEE double with RNE rounding.

import (
	"fmt"
	"math"
	"math/bits"
	"strings"
	"sync/atomic"
)

type sortKind uint8

const (
	sBool sortKind = iota
	sBV
	sFP
)

type Sort struct {
	k sortKind
	w int // BV width; FP: 64
}

var (
	boolSort = Sort{sBool, 1}
	fp64Sort = Sort{sFP, 64}
)

func bvSort(w int) Sort { return Sort{sBV, w} }

func (s Sort) smt() string {
	switch s.k {
	case sBool:
		return "Bool"
	case sBV:
		return fmt.Sprintf("(_ BitVec %d)", s.w)
	default:
		return "(_ FloatingPoint 11 53)"
	}
}

type Term struct {
	op   string
	args []*Term
	sort Sort
	name string // op=="var"
	val  uint64 // op=="const": BV bits / Bool 0|1 / FP bits
	p1   int    // extract hi / extend amount
	p2   int    // extract lo
	h1   uint64 // structural hash (0 = not computed)
	h2   uint64
	ev   uint64 // memoised evaluation (valid when evEp == current epoch)
	evEp uint64
}

var evalEpoch uint64 // atomically incremented; a term belongs to one worker

// hash returns a 128-bit structural hash of the term (memoised).
func (t *Term) hash() (uint64, uint64) {
	if t.h1 != 0 || t.h2 != 0 {
		return t.h1, t.h2
	}
	var a, b uint64 = 14695981039346656037, 0x9E3779B97F4A7C15
	mix := func(x uint64) {
		a ^= x
		a *= 1099511628211
		b = (b ^ x) * 0xff51afd7ed558ccd
		b ^= b >> 29
	}
	for _, c := range []byte(t.op) {
		mix(uint64(c))
	}
	mix(uint64(t.sort.k)<<8 | uint64(t.sort.w))
	mix(t.val)
	mix(uint64(t.p1)<<16 | uint64(t.p2))
	for _, c := range []byte(t.name) {
		mix(uint64(c))
	}
	for _, x := range t.args {
		x1, x2 := x.hash()
		mix(x1)
		mix(x2 ^ 0x5bd1e995)
	}
	if a == 0 && b == 0 {
		a = 1
	}
	t.h1, t.h2 = a, b
	return a, b
}

func (t *Term) isConst() bool { return t.op == "const" }

func mask(w int) uint64 {
	if w >= 64 {
		return ^uint64(0)
	}
	return (uint64(1) << uint(w)) - 1
}

func mkVar(name string, s Sort) *Term { return &Term{op: "var", name: name, sort: s} }

func mkBV(w int, v uint64) *Term { return &Term{op: "const", sort: bvSort(w), val: v & mask(w)} }

func mkBool(b bool) *Term {
	if b {
		return termTrue
	}
	return termFalse
}

func mkFP(f float64) *Term { return &Term{op: "const", sort: fp64Sort, val: math.Float64bits(f)} }

var (
	termTrue  = &Term{op: "const", sort: boolSort, val: 1}
	termFalse = &Term{op: "const", sort: boolSort, val: 0}
)

// mk builds op(args...) with result sort s, folding constants.
func mk(op string, s Sort, args ...*Term) *Term {
	t := &Term{op: op, args: args, sort: s}
	return simplify(t)
}

func mkP(op string, s Sort, p1, p2 int, args ...*Term) *Term {
	t := &Term{op: op, args: args, sort: s, p1: p1, p2: p2}
	return simplify(t)
}

func allConst(args []*Term) bool {
	for _, a := range args {
		if !a.isConst() {
			return false
		}
	}
	return true
}

func simplify(t *Term) *Term {
	if allConst(t.args) && t.op != "var" && t.op != "const" && t.op != "uf_pow" {
		if v, ok := evalOp(t, func(i int) uint64 { return t.args[i].val }); ok {
			return &Term{op: "const", sort: t.sort, val: v}
		}
	}
	switch t.op {
	case "not":
		a := t.args[0]
		if a.op == "not" {
			return a.args[0]
		}
	case "and":
		a, b := t.args[0], t.args[1]
		if a.isConst() {
			if a.val == 1 {
				return b
			}
			return termFalse
		}
		if b.isConst() {
			if b.val == 1 {
				return a
			}
			return termFalse
		}
		if a == b {
			return a
		}
	case "or":
		a, b := t.args[0], t.args[1]
		if a.isConst() {
			if a.val == 0 {
				return b
			}
			return termTrue
		}
		if b.isConst() {
			if b.val == 0 {
				return a
			}
			return termTrue
		}
		if a == b {
			return a
		}
	case "ite":
		c, a, b := t.args[0], t.args[1], t.args[2]
		if c.isConst() {
			if c.val == 1 {
				return a
			}
			return b
		}
		if a == b {
			return a
		}
		if a.isConst() && b.isConst() && a.val == b.val {
			return a
		}
		if t.sort.k == sBool && a.isConst() && b.isConst() {
			if a.val == 1 && b.val == 0 {
				return c
			}
			if a.val == 0 && b.val == 1 {
				return mk("not", boolSort, c)
			}
		}
	case "=":
		if t.args[0] == t.args[1] && t.args[0].sort.k != sFP {
			return termTrue
		}
		// (= (ite c k1 k2) k) with constants
		a, b := t.args[0], t.args[1]
		if b.op == "ite" && a.isConst() {
			a, b = b, a
		}
		if a.op == "ite" && b.isConst() && a.args[1].isConst() && a.args[2].isConst() {
			e1 := a.args[1].val == b.val
			e2 := a.args[2].val == b.val
			switch {
			case e1 && e2:
				return termTrue
			case e1:
				return a.args[0]
			case e2:
				return mk("not", boolSort, a.args[0])
			default:
				return termFalse
			}
		}
	case "zero_extend", "sign_extend":
		if t.p1 == 0 {
			return t.args[0]
		}
	case "extract":
		a := t.args[0]
		if t.p2 == 0 && t.p1 == a.sort.w-1 {
			return a
		}
		// extract low bits of an extension of something at least as wide as the extract
		if (a.op == "zero_extend" || a.op == "sign_extend") && t.p2 == 0 {
			in := a.args[0]
			if t.p1 == in.sort.w-1 {
				return in
			}
			if t.p1 < in.sort.w-1 {
				return mkP("extract", t.sort, t.p1, 0, in)
			}
		}
	case "bvadd", "bvor", "bvxor":
		if t.args[1].isConst() && t.args[1].val == 0 {
			return t.args[0]
		}
		if t.args[0].isConst() && t.args[0].val == 0 {
			return t.args[1]
		}
	case "bvsub", "bvshl", "bvlshr", "bvashr":
		if t.args[1].isConst() && t.args[1].val == 0 {
			return t.args[0]
		}
	}
	return t
}

func signExt(v uint64, w int) int64 {
	if w >= 64 {
		return int64(v)
	}
	sh := uint(64 - w)
	return int64(v<<sh) >> sh
}

// evalOp evaluates t's operator given a function returning the value of
// its i'th argument (as raw bits).  ok=false when the op is not evaluable.
func evalOp(t *Term, arg func(int) uint64) (uint64, bool) {
	b2u := func(b bool) uint64 {
		if b {
			return 1
		}
		return 0
	}
	w := t.sort.w
	var aw int
	if len(t.args) > 0 {
		aw = t.args[0].sort.w
	}
	f := func(i int) float64 { return math.Float64frombits(arg(i)) }
	fb := func(x float64) uint64 { return math.Float64bits(x) }
	switch t.op {
	case "not":
		return 1 - arg(0), true
	case "and":
		return arg(0) & arg(1), true
	case "or":
		return arg(0) | arg(1), true
	case "=>":
		return b2u(arg(0) == 0 || arg(1) == 1), true
	case "ite":
		if arg(0) == 1 {
			return arg(1), true
		}
		return arg(2), true
	case "=":
		if t.args[0].sort.k == sFP {
			// SMT = on FP is structural identity except all NaNs are identical
			x, y := f(0), f(1)
			if math.IsNaN(x) || math.IsNaN(y) {
				return b2u(math.IsNaN(x) && math.IsNaN(y)), true
			}
			return b2u(arg(0) == arg(1)), true
		}
		return b2u(arg(0) == arg(1)), true
	case "bvadd":
		return (arg(0) + arg(1)) & mask(w), true
	case "bvsub":
		return (arg(0) - arg(1)) & mask(w), true
	case "bvmul":
		return (arg(0) * arg(1)) & mask(w), true
	case "bvand":
		return arg(0) & arg(1), true
	case "bvor":
		return arg(0) | arg(1), true
	case "bvxor":
		return arg(0) ^ arg(1), true
	case "bvnot":
		return ^arg(0) & mask(w), true
	case "bvneg":
		return (-arg(0)) & mask(w), true
	case "bvudiv":
		if arg(1) == 0 {
			return mask(w), true
		}
		return arg(0) / arg(1), true
	case "bvurem":
		if arg(1) == 0 {
			return arg(0), true
		}
		return arg(0) % arg(1), true
	case "bvsdiv":
		x, y := signExt(arg(0), w), signExt(arg(1), w)
		if y == 0 {
			if x < 0 {
				return 1, true
			}
			return mask(w), true
		}
		if y == -1 {
			return uint64(-x) & mask(w), true
		}
		return uint64(x/y) & mask(w), true
	case "bvsrem":
		x, y := signExt(arg(0), w), signExt(arg(1), w)
		if y == 0 {
			return arg(0), true
		}
		if y == -1 {
			return 0, true
		}
		return uint64(x%y) & mask(w), true
	case "bvshl":
		if arg(1) >= uint64(w) {
			return 0, true
		}
		return (arg(0) << arg(1)) & mask(w), true
	case "bvlshr":
		if arg(1) >= uint64(w) {
			return 0, true
		}
		return arg(0) >> arg(1), true
	case "bvashr":
		x := signExt(arg(0), w)
		s := arg(1)
		if s >= uint64(w) {
			s = uint64(w - 1)
		}
		return uint64(x>>s) & mask(w), true
	case "bvult":
		return b2u(arg(0) < arg(1)), true
	case "bvule":
		return b2u(arg(0) <= arg(1)), true
	case "bvugt":
		return b2u(arg(0) > arg(1)), true
	case "bvuge":
		return b2u(arg(0) >= arg(1)), true
	case "bvslt":
		return b2u(signExt(arg(0), aw) < signExt(arg(1), aw)), true
	case "bvsle":
		return b2u(signExt(arg(0), aw) <= signExt(arg(1), aw)), true
	case "bvsgt":
		return b2u(signExt(arg(0), aw) > signExt(arg(1), aw)), true
	case "bvsge":
		return b2u(signExt(arg(0), aw) >= signExt(arg(1), aw)), true
	case "extract":
		return (arg(0) >> uint(t.p2)) & mask(t.p1-t.p2+1), true
	case "zero_extend":
		return arg(0), true
	case "sign_extend":
		return uint64(signExt(arg(0), aw)) & mask(w), true
	case "concat":
		return (arg(0)<<uint(t.args[1].sort.w) | arg(1)) & mask(w), true
	case "fp.add":
		return fb(f(0) + f(1)), true
	case "fp.sub":
		return fb(f(0) - f(1)), true
	case "fp.mul":
		return fb(f(0) * f(1)), true
	case "fp.div":
		return fb(f(0) / f(1)), true
	case "fp.neg":
		return fb(-f(0)), true
	case "fp.abs":
		return fb(math.Abs(f(0))), true
	case "fp.lt":
		return b2u(f(0) < f(1)), true
	case "fp.leq":
		return b2u(f(0) <= f(1)), true
	case "fp.gt":
		return b2u(f(0) > f(1)), true
	case "fp.geq":
		return b2u(f(0) >= f(1)), true
	case "fp.eq":
		return b2u(f(0) == f(1)), true
	case "fp.rti_rtz":
		return fb(math.Trunc(f(0))), true
	case "fp.rti_rtn":
		return fb(math.Floor(f(0))), true
	case "fp.rti_rtp":
		return fb(math.Ceil(f(0))), true
	case "fp.rti_rna":
		return fb(math.Round(f(0))), true
	case "fp.sqrt":
		return fb(math.Sqrt(f(0))), true
	case "fp.round32":
		return fb(float64(float32(f(0)))), true
	case "fp.isNaN":
		return b2u(math.IsNaN(f(0))), true
	case "fp.isInfinite":
		return b2u(math.IsInf(f(0), 0)), true
	case "to_fp_s":
		return fb(float64(signExt(arg(0), aw))), true
	case "to_fp_u":
		return fb(float64(arg(0))), true
	case "fp.to_sbv":
		x := f(0)
		if math.IsNaN(x) || x >= 9.3e18 || x <= -9.3e18 {
			return 0, false // unspecified
		}
		return uint64(int64(x)) & mask(w), true
	case "fp.to_ubv":
		x := f(0)
		if math.IsNaN(x) || x >= 1.8e19 || x < 0 {
			return 0, false
		}
		return uint64(x) & mask(w), true
	case "fp.bits": // pseudo-op: IEEE bits of a non-NaN float
		if math.IsNaN(f(0)) {
			return 0, false
		}
		return arg(0), true
	case "bits.fp":
		return arg(0), true
	}
	_ = bits.Len
	return 0, false
}

// evalTerm evaluates t under model (variable name -> raw bits); variables
// not in the model default to zero.  ok=false if some operator could not be
// evaluated (unspecified result).  The memo argument is kept for API
// compatibility; memoisation uses epoch stamps in the terms.
func evalTerm(t *Term, model map[string]uint64, memo map[*Term]uint64) (uint64, bool) {
	ep := atomic.AddUint64(&evalEpoch, 1)
	return evalRec(t, model, ep)
}

// evalMany evaluates several terms under one model with shared memoisation.
func newEvalEpoch() uint64 { return atomic.AddUint64(&evalEpoch, 1) }

func evalRec(t *Term, model map[string]uint64, ep uint64) (uint64, bool) {
	switch t.op {
	case "const":
		return t.val, true
	case "var":
		return model[t.name] & mask64(t.sort), true
	}
	if t.evEp == ep {
		return t.ev, true
	}
	if t.op == "ite" {
		c, ok := evalRec(t.args[0], model, ep)
		if !ok {
			return 0, false
		}
		var v uint64
		if c == 1 {
			v, ok = evalRec(t.args[1], model, ep)
		} else {
			v, ok = evalRec(t.args[2], model, ep)
		}
		if ok {
			t.ev, t.evEp = v, ep
		}
		return v, ok
	}
	var vals [3]uint64
	var vs []uint64
	if len(t.args) <= 3 {
		vs = vals[:len(t.args)]
	} else {
		vs = make([]uint64, len(t.args))
	}
	for i, a := range t.args {
		v, ok := evalRec(a, model, ep)
		if !ok {
			return 0, false
		}
		vs[i] = v
	}
	v, ok := evalOp(t, func(i int) uint64 { return vs[i] })
	if ok {
		t.ev, t.evEp = v, ep
	}
	return v, ok
}

func mask64(s Sort) uint64 {
	if s.k == sBV {
		return mask(s.w)
	}
	if s.k == sBool {
		return 1
	}
	return ^uint64(0)
}

// ---- SMT-LIB printing ----

func constSMT(t *Term) string {
	switch t.sort.k {
	case sBool:
		if t.val == 1 {
			return "true"
		}
		return "false"
	case sBV:
		if t.sort.w%4 == 0 {
			return fmt.Sprintf("#x%0*x", t.sort.w/4, t.val)
		}
		return fmt.Sprintf("#b%0*b", t.sort.w, t.val)
	default:
		f := math.Float64frombits(t.val)
		if math.IsNaN(f) {
			return "(_ NaN 11 53)"
		}
		return fmt.Sprintf("((_ to_fp 11 53) #x%016x)", t.val)
	}
}

// opSMT renders the application of t.op to already-rendered args.
func opSMT(t *Term, a []string) string {
	j := strings.Join(a, " ")
	switch t.op {
	case "extract":
		return fmt.Sprintf("((_ extract %d %d) %s)", t.p1, t.p2, j)
	case "zero_extend", "sign_extend":
		return fmt.Sprintf("((_ %s %d) %s)", t.op, t.p1, j)
	case "fp.add", "fp.sub", "fp.mul", "fp.div":
		return fmt.Sprintf("(%s RNE %s)", t.op, j)
	case "fp.rti_rtz":
		return fmt.Sprintf("(fp.roundToIntegral RTZ %s)", j)
	case "fp.rti_rtn":
		return fmt.Sprintf("(fp.roundToIntegral RTN %s)", j)
	case "fp.rti_rtp":
		return fmt.Sprintf("(fp.roundToIntegral RTP %s)", j)
	case "fp.rti_rna":
		return fmt.Sprintf("(fp.roundToIntegral RNA %s)", j)
	case "fp.sqrt":
		return fmt.Sprintf("(fp.sqrt RNE %s)", j)
	case "fp.round32":
		// a float32 value is carried as the float64 it converts to exactly
		return fmt.Sprintf("((_ to_fp 11 53) RNE ((_ to_fp 8 24) RNE %s))", j)
	case "to_fp_s":
		return fmt.Sprintf("((_ to_fp 11 53) RNE %s)", j)
	case "to_fp_u":
		return fmt.Sprintf("((_ to_fp_unsigned 11 53) RNE %s)", j)
	case "fp.to_sbv":
		return fmt.Sprintf("((_ fp.to_sbv %d) RTZ %s)", t.sort.w, j)
	case "fp.to_ubv":
		return fmt.Sprintf("((_ fp.to_ubv %d) RTZ %s)", t.sort.w, j)
	case "bits.fp":
		return fmt.Sprintf("((_ to_fp 11 53) %s)", j)
	case "uf_pow":
		return fmt.Sprintf("(uf_pow %s)", j)
	}
	return fmt.Sprintf("(%s %s)", t.op, j)
}

// String renders the term as a tree (for diagnostics; may be large).
func (t *Term) String() string {
	var sb strings.Builder
	var rec func(t *Term, d int)
	rec = func(t *Term, d int) {
		switch t.op {
		case "const":
			sb.WriteString(constSMT(t))
		case "var":
			sb.WriteString(t.name)
		default:
			if d > 6 {
				sb.WriteString("…")
				return
			}
			sb.WriteString("(" + t.op)
			for _, a := range t.args {
				sb.WriteString(" ")
				rec(a, d+1)
			}
			sb.WriteString(")")
		}
	}
	rec(t, 0)
	return sb.String()
}

// collectVars appends the variables of t (deduplicated; the seen map is
// unused, kept for API compatibility: visiting uses epoch stamps).
func collectVars(t *Term, seen map[*Term]bool, out *[]*Term) {
	ep := atomic.AddUint64(&evalEpoch, 1)
	collectVarsRec(t, ep, out)
}

func collectVarsRec(t *Term, ep uint64, out *[]*Term) {
	switch t.op {
	case "const":
		return
	case "var":
		if t.evEp == ep {
			return
		}
		t.evEp = ep
		*out = append(*out, t)
		return
	}
	if t.evEp == ep {
		return
	}
	t.evEp = ep
	for _, a := range t.args {
		collectVarsRec(a, ep, out)
	}
}

// ---- convenience constructors ----

func tNot(a *Term) *Term     { return mk("not", boolSort, a) }
func tAnd(a, b *Term) *Term  { return mk("and", boolSort, a, b) }
func tOr(a, b *Term) *Term   { return mk("or", boolSort, a, b) }
func tEq(a, b *Term) *Term   { return mk("=", boolSort, a, b) }
func tIte(c, a, b *Term) *Term { return mk("ite", a.sort, c, a, b) }
