// Copyright 2013 The Go Authors. All rights reserved.
// Use of this source code is governed by a BSD-style
// license that can be found in the LICENSE file.

package interp

// Values
//
// All interpreter values are "boxed" in the empty interface, value.
// The range of possible dynamic types within value are:
//
// - bool
// - numbers (all built-in int/float/complex types are distinguished)
// - string
// - map[value]value --- maps for which  usesBuiltinMap(keyType)
//   *hashmap        --- maps for which !usesBuiltinMap(keyType)
// - chan value
// - []value --- slices
// - iface --- interfaces.
// - structure --- structs.  Fields are ordered and accessed by numeric indices.
// - array --- arrays.
// - *value --- pointers.  Careful: *value is a distinct type from *array etc.
// - *ssa.Function \
//   *ssa.Builtin   } --- functions.  A nil 'func' is always of type *ssa.Function.
//   *closure      /
// - tuple --- as returned by Return, Next, "value,ok" modes, etc.
// - iter --- iterators from 'range' over map or string.
// - bad --- a poison pill for locals that have gone out of scope.
// - rtype -- the interpreter's concrete implementation of reflect.Type
// - **deferred -- the address of a frame's defer stack for a Defer._Stack.
//
// Note that nil is not on this list.
//
// Pay close attention to whether or not the dynamic type is a pointer.
// The compiler cannot help you since value is an empty interface.

import (
	"bytes"
	"fmt"
	"os"
	"go/types"
	"io"
	"reflect"
	"strings"
	"unsafe"

	"golang.org/x/tools/go/ssa"
	"golang.org/x/tools/go/types/typeutil"
)

type value any

type tuple []value

type array []value

type iface struct {
	t types.Type // never an "untyped" type
	v value
}

type structure []value

// For map, array, *array, slice, string or channel.
type iter interface {
	// next returns a Tuple (key, value, ok).
	// key and value are unaliased, e.g. copies of the sequence element.
	next() tuple
}

type closure struct {
	Fn  *ssa.Function
	Env []value
}

type bad struct{}

type rtype struct {
	t types.Type
}

// Hash functions and equivalence relation:

// hashString computes the FNV hash of s.
func hashString(s string) int {
	var h uint32
	for i := 0; i < len(s); i++ {
		h ^= uint32(s[i])
		h *= 16777619
	}
	return int(h)
}

var hasher = typeutil.MakeHasher()

// hashType returns a hash for t such that
// types.Identical(x, y) => hashType(x) == hashType(y).
func hashType(t types.Type) int {
	return int(hasher.Hash(t))
}

// usesBuiltinMap returns true if the built-in hash function and
// equivalence relation for type t are consistent with those of the
// interpreter's representation of type t.  Such types are: all basic
// types (bool, numbers, string), pointers and channels.
//
// usesBuiltinMap returns false for types that require a custom map
// implementation: interfaces, arrays and structs.
//
// Panic ensues if t is an invalid map key type: function, map or slice.
func usesBuiltinMapUnused(t types.Type) bool {
	switch t := t.(type) {
	case *types.Basic, *types.Chan, *types.Pointer:
		return true
	case *types.Named, *types.Alias:
		return usesBuiltinMapUnused(t.Underlying())
	case *types.Interface, *types.Array, *types.Struct:
		return false
	}
	panic(fmt.Sprintf("invalid map key type: %T", t))
}

// nil-tolerant variant of types.Identical.
func sameType(x, y types.Type) bool {
	if x == nil {
		return y == nil
	}
	return y != nil && types.Identical(x, y)
}

func (x array) hash(t types.Type) int {
	h := 0
	tElt := t.Underlying().(*types.Array).Elem()
	for _, xi := range x {
		h += hash(t, tElt, xi)
	}
	return h
}

func (x structure) hash(t types.Type) int {
	tStruct := t.Underlying().(*types.Struct)
	h := 0
	for i, n := 0, tStruct.NumFields(); i < n; i++ {
		if f := tStruct.Field(i); !f.Anonymous() {
			h += hash(t, f.Type(), x[i])
		}
	}
	return h
}

func (x iface) hash(outer types.Type) int {
	return hashType(x.t)*8581 + hash(outer, x.t, x.v)
}

func (x rtype) hash(_ types.Type) int {
	return hashType(x.t)
}

// equals returns x == y according to Go's equivalence relation for type
// t: a bool, or a *Term when the answer depends on symbolic data.
func equals(t types.Type, x, y value) value {
	if isSym(x) || isSym(y) {
		return symEq(t, x, y)
	}
	switch x := x.(type) {
	case bool:
		return x == y.(bool)
	case int:
		return x == y.(int)
	case int8:
		return x == y.(int8)
	case int16:
		return x == y.(int16)
	case int32:
		return x == y.(int32)
	case int64:
		return x == y.(int64)
	case uint:
		return x == y.(uint)
	case uint8:
		return x == y.(uint8)
	case uint16:
		return x == y.(uint16)
	case uint32:
		return x == y.(uint32)
	case uint64:
		return x == y.(uint64)
	case uintptr:
		return x == y.(uintptr)
	case float32:
		return x == y.(float32)
	case float64:
		return x == y.(float64)
	case complex64:
		return x == y.(complex64)
	case complex128:
		return x == y.(complex128)
	case string, symstr:
		return strEq(x, y)
	case *value:
		return x == y.(*value)
	case chan value:
		return x == y.(chan value)
	case unsafe.Pointer:
		return x == y.(unsafe.Pointer)
	case *omap:
		return x == y.(*omap)
	case structure:
		ys := y.(structure)
		if n, ok := t.(*types.Named); ok && n.Obj().Name() == "Value" && n.Obj().Pkg() != nil && n.Obj().Pkg().Path() == "reflect" && len(x) == 3 && len(ys) == 3 {
			// reflect.Value == reflect.Value (the model's two fields are not
			// what the declared struct type says): the zero Value equals only
			// the zero Value; two Values of a pointer are equal when type and
			// pointer are.
			xt, xok := x[0].(rtype)
			yt, yok := ys[0].(rtype)
			if !xok || !yok || xt.t == nil || yt.t == nil {
				return (!xok || xt.t == nil) == (!yok || yt.t == nil)
			}
			if !types.Identical(xt.t, yt.t) {
				return false
			}
			xp, xpok := rvGet(x).(*value)
			yp, ypok := rvGet(ys).(*value)
			if xpok && ypok {
				return xp == yp
			}
			unsupported("comparison of reflect.Values that are not pointers")
		}
		tStruct := t.Underlying().(*types.Struct)
		var acc value = true
		for i, n := 0, tStruct.NumFields(); i < n; i++ {
			if f := tStruct.Field(i); f.Name() != "_" {
				acc = vAnd(acc, equals(f.Type(), x[i], ys[i]))
				if b, ok := acc.(bool); ok && !b {
					return false
				}
			}
		}
		return acc
	case array:
		ya := y.(array)
		tElt := t.Underlying().(*types.Array).Elem()
		var acc value = true
		for i, xi := range x {
			acc = vAnd(acc, equals(tElt, xi, ya[i]))
			if b, ok := acc.(bool); ok && !b {
				return false
			}
		}
		return acc
	case iface:
		yi := y.(iface)
		if !sameType(x.t, yi.t) {
			return false
		}
		if x.t == nil {
			return true
		}
		return equals(x.t, x.v, yi.v)
	case rtype:
		return types.Identical(x.t, y.(rtype).t)
	case symptr:
		unsupported("comparison of symbolic-index pointers")
	}

	// Since map, func and slice don't support comparison, this
	// case is only reachable if one of x or y is literally nil
	// (handled in eqnil) or via interface{} values.
	if debugStacks {
		fmt.Fprintf(os.Stderr, "target panic: comparing uncomparable type %s (%T)\n", t, x)
	}
	panic(targetPanic{fmt.Sprintf("runtime error: comparing uncomparable type %s", t)})
}

// Returns an integer hash of x such that equals(x, y) => hash(x) == hash(y).
// The outer type is used only for the "unhashable" panic message.
func hash(outer, t types.Type, x value) int {
	switch x := x.(type) {
	case bool:
		if x {
			return 1
		}
		return 0
	case int:
		return x
	case int8:
		return int(x)
	case int16:
		return int(x)
	case int32:
		return int(x)
	case int64:
		return int(x)
	case uint:
		return int(x)
	case uint8:
		return int(x)
	case uint16:
		return int(x)
	case uint32:
		return int(x)
	case uint64:
		return int(x)
	case uintptr:
		return int(x)
	case float32:
		return int(x)
	case float64:
		return int(x)
	case complex64:
		return int(real(x))
	case complex128:
		return int(real(x))
	case string:
		return hashString(x)
	case *value:
		return int(uintptr(unsafe.Pointer(x)))
	case unsafe.Pointer:
		return int(uintptr(x))
	case chan value:
		return int(uintptr(reflect.ValueOf(x).Pointer()))
	case structure:
		return x.hash(t)
	case array:
		return x.hash(t)
	case iface:
		return x.hash(t)
	case rtype:
		return x.hash(t)
	}
	panic(fmt.Sprintf("unhashable type %v", outer))
}

// reflect.Value struct values don't have a fixed shape, since the
// payload can be a scalar or an aggregate depending on the instance.
// So store (and load) can't simply use recursion over the shape of the
// rhs value, or the lhs, to copy the value; we need the static type
// information.  (We can't make reflect.Value a new basic data type
// because its "structness" is exposed to Go programs.)

// load returns the value of type T in *addr.
func load(T types.Type, addr *value) value {
	switch T := T.Underlying().(type) {
	case *types.Struct:
		v := (*addr).(structure)
		a := make(structure, len(v))
		for i := range a {
			a[i] = load(T.Field(i).Type(), &v[i])
		}
		return a
	case *types.Array:
		v := (*addr).(array)
		a := make(array, len(v))
		for i := range a {
			a[i] = load(T.Elem(), &v[i])
		}
		return a
	default:
		return *addr
	}
}

// store stores value v of type T into *addr.
func store(i *interpreter, T types.Type, addr *value, v value) {
	switch T := T.Underlying().(type) {
	case *types.Struct:
		lhs := (*addr).(structure)
		rhs := v.(structure)
		for k := range lhs {
			store(i, T.Field(k).Type(), &lhs[k], rhs[k])
		}
	case *types.Array:
		lhs := (*addr).(array)
		rhs := v.(array)
		for k := range lhs {
			store(i, T.Elem(), &lhs[k], rhs[k])
		}
	default:
		i.setCell(addr, v)
	}
}

// Prints in the style of built-in println.
// (More or less; in gc println is actually a compiler intrinsic and
// can distinguish println(1) from println(interface{}(1)).)
func writeValue(buf *bytes.Buffer, v value) {
	switch v := v.(type) {
	case nil, bool, int, int8, int16, int32, int64, uint, uint8, uint16, uint32, uint64, uintptr, float32, float64, complex64, complex128, string:
		fmt.Fprintf(buf, "%v", v)

	case *omap:
		buf.WriteString("map[")
		sep := ""
		if v != nil {
			for p, k := range v.keys {
				if !v.live[p] {
					continue
				}
				buf.WriteString(sep)
				sep = " "
				writeValue(buf, k)
				buf.WriteString(":")
				writeValue(buf, v.vals[p])
			}
		}
		buf.WriteString("]")

	case *Term:
		buf.WriteString("<sym " + v.String() + ">")

	case symstr:
		buf.WriteString("<symstr>")

	case chan value:
		fmt.Fprintf(buf, "%v", v) // (an address)

	case *value:
		if v == nil {
			buf.WriteString("<nil>")
		} else {
			fmt.Fprintf(buf, "%p", v)
		}

	case iface:
		fmt.Fprintf(buf, "(%s, ", v.t)
		writeValue(buf, v.v)
		buf.WriteString(")")

	case structure:
		buf.WriteString("{")
		for i, e := range v {
			if i > 0 {
				buf.WriteString(" ")
			}
			writeValue(buf, e)
		}
		buf.WriteString("}")

	case array:
		buf.WriteString("[")
		for i, e := range v {
			if i > 0 {
				buf.WriteString(" ")
			}
			writeValue(buf, e)
		}
		buf.WriteString("]")

	case []value:
		buf.WriteString("[")
		for i, e := range v {
			if i > 0 {
				buf.WriteString(" ")
			}
			writeValue(buf, e)
		}
		buf.WriteString("]")

	case *ssa.Function, *ssa.Builtin, *closure:
		fmt.Fprintf(buf, "%p", v) // (an address)

	case rtype:
		buf.WriteString(v.t.String())

	case tuple:
		// Unreachable in well-formed Go programs
		buf.WriteString("(")
		for i, e := range v {
			if i > 0 {
				buf.WriteString(", ")
			}
			writeValue(buf, e)
		}
		buf.WriteString(")")

	default:
		fmt.Fprintf(buf, "<%T>", v)
	}
}

// Implements printing of Go values in the style of built-in println.
func toString(v value) string {
	var b bytes.Buffer
	writeValue(&b, v)
	return b.String()
}

// ------------------------------------------------------------------------
// Iterators

type stringIter struct {
	*strings.Reader
	i int
}

func (it *stringIter) next() tuple {
	okv := make(tuple, 3)
	ch, n, err := it.ReadRune()
	ok := err != io.EOF
	okv[0] = ok
	if ok {
		okv[1] = it.i
		okv[2] = ch
	}
	it.i += n
	return okv
}

