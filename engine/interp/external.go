// Copyright 2013 The Go Authors. All rights reserved.
// Use of this source code is governed by a BSD-style
// license that can be found in the LICENSE file.

package interp

// Emulated functions that we cannot interpret because they are
// external or because they use "unsafe" or "reflect" operations.

import (
	"bytes"
	"maps"
	"math"
	"os"
	"runtime"
	"slices"
	"sort"
	"strconv"
	"strings"
	"time"
	"unicode/utf8"
)

type externalFn func(fr *frame, args []value) value

// TODO(adonovan): fix: reflect.Value abstracts an lvalue or an
// rvalue; Set() causes mutations that can be observed via aliases.
// We have not captured that correctly here.

// Key strings are from Function.String().
var externals = make(map[string]externalFn)

func init() {
	// That little dot ۰ is an Arabic zero numeral (U+06F0), categories [Nd].
	maps.Copy(externals, map[string]externalFn{
		"(reflect.Value).Bool":            ext۰reflect۰Value۰Bool,
		"(reflect.Value).CanAddr":         ext۰reflect۰Value۰CanAddr,
		"(reflect.Value).CanInterface":    ext۰reflect۰Value۰CanInterface,
		"(reflect.Value).Elem":            ext۰reflect۰Value۰Elem,
		"(reflect.Value).Field":           ext۰reflect۰Value۰Field,
		"(reflect.Value).Float":           ext۰reflect۰Value۰Float,
		"(reflect.Value).Index":           ext۰reflect۰Value۰Index,
		"(reflect.Value).Int":             ext۰reflect۰Value۰Int,
		"(reflect.Value).Interface":       ext۰reflect۰Value۰Interface,
		"(reflect.Value).IsNil":           ext۰reflect۰Value۰IsNil,
		"(reflect.Value).IsValid":         ext۰reflect۰Value۰IsValid,
		"(reflect.Value).Kind":            ext۰reflect۰Value۰Kind,
		"(reflect.Value).Len":             ext۰reflect۰Value۰Len,
		"(reflect.Value).MapIndex":        ext۰reflect۰Value۰MapIndex,
		"(reflect.Value).MapKeys":         ext۰reflect۰Value۰MapKeys,
		"(reflect.Value).NumField":        ext۰reflect۰Value۰NumField,
		"(reflect.Value).NumMethod":       ext۰reflect۰Value۰NumMethod,
		"(reflect.Value).Pointer":         ext۰reflect۰Value۰Pointer,
		"(reflect.Value).Set":             ext۰reflect۰Value۰Set,
		"(reflect.Value).String":          ext۰reflect۰Value۰String,
		"(reflect.Value).Type":            ext۰reflect۰Value۰Type,
		"(reflect.Value).Uint":            ext۰reflect۰Value۰Uint,
		"(reflect.error).Error":           ext۰reflect۰error۰Error,
		"(reflect.rtype).Bits":            ext۰reflect۰rtype۰Bits,
		"(reflect.rtype).Elem":            ext۰reflect۰rtype۰Elem,
		"(reflect.rtype).Field":           ext۰reflect۰rtype۰Field,
		"(reflect.rtype).In":              ext۰reflect۰rtype۰In,
		"(reflect.rtype).Kind":            ext۰reflect۰rtype۰Kind,
		"(reflect.rtype).NumField":        ext۰reflect۰rtype۰NumField,
		"(reflect.rtype).NumIn":           ext۰reflect۰rtype۰NumIn,
		"(reflect.rtype).NumMethod":       ext۰reflect۰rtype۰NumMethod,
		"(reflect.rtype).Method":          ext۰reflect۰rtype۰Method,
		"(reflect.rtype).NumOut":          ext۰reflect۰rtype۰NumOut,
		"(reflect.rtype).Out":             ext۰reflect۰rtype۰Out,
		"(reflect.rtype).Size":            ext۰reflect۰rtype۰Size,
		"(reflect.rtype).String":          ext۰reflect۰rtype۰String,
		"reflect.New":                     ext۰reflect۰New,
		"reflect.SliceOf":                 ext۰reflect۰SliceOf,
		"reflect.TypeOf":                  ext۰reflect۰TypeOf,
		"reflect.ValueOf":                 ext۰reflect۰ValueOf,
		"reflect.Zero":                    ext۰reflect۰Zero,
		"runtime.GC":                      ext۰runtime۰GC,
		"runtime.GOMAXPROCS":              ext۰runtime۰GOMAXPROCS,
		"runtime.GOROOT":                  ext۰runtime۰GOROOT,
		"runtime.Gosched":                 ext۰runtime۰Gosched,
		"runtime.NumCPU":                  ext۰runtime۰NumCPU,
	})
}

func ext۰bytes۰Equal(fr *frame, args []value) value {
	// func Equal(a, b []byte) bool
	a := args[0].([]value)
	b := args[1].([]value)
	return slices.Equal(a, b)
}

func ext۰bytes۰IndexByte(fr *frame, args []value) value {
	// func IndexByte(s []byte, c byte) int
	s := args[0].([]value)
	c := args[1].(byte)
	for i, b := range s {
		if b.(byte) == c {
			return i
		}
	}
	return -1
}

func ext۰math۰Float64frombits(fr *frame, args []value) value {
	return math.Float64frombits(args[0].(uint64))
}

func ext۰math۰Float64bits(fr *frame, args []value) value {
	return math.Float64bits(args[0].(float64))
}

func ext۰math۰Float32frombits(fr *frame, args []value) value {
	return math.Float32frombits(args[0].(uint32))
}

func ext۰math۰Abs(fr *frame, args []value) value {
	return math.Abs(args[0].(float64))
}

func ext۰math۰Copysign(fr *frame, args []value) value {
	return math.Copysign(args[0].(float64), args[1].(float64))
}

func ext۰math۰Exp(fr *frame, args []value) value {
	return math.Exp(args[0].(float64))
}

func ext۰math۰Float32bits(fr *frame, args []value) value {
	return math.Float32bits(args[0].(float32))
}

func ext۰math۰Min(fr *frame, args []value) value {
	return math.Min(args[0].(float64), args[1].(float64))
}

func ext۰math۰NaN(fr *frame, args []value) value {
	return math.NaN()
}

func ext۰math۰IsNaN(fr *frame, args []value) value {
	return math.IsNaN(args[0].(float64))
}

func ext۰math۰Inf(fr *frame, args []value) value {
	return math.Inf(args[0].(int))
}

func ext۰math۰Ldexp(fr *frame, args []value) value {
	return math.Ldexp(args[0].(float64), args[1].(int))
}

func ext۰math۰Log(fr *frame, args []value) value {
	return math.Log(args[0].(float64))
}

func ext۰math۰Sqrt(fr *frame, args []value) value {
	return math.Sqrt(args[0].(float64))
}

func ext۰runtime۰Breakpoint(fr *frame, args []value) value {
	runtime.Breakpoint()
	return nil
}

func ext۰sort۰Ints(fr *frame, args []value) value {
	x := args[0].([]value)
	sort.Slice(x, func(i, j int) bool {
		return x[i].(int) < x[j].(int)
	})
	return nil
}
func ext۰sort۰Strings(fr *frame, args []value) value {
	x := args[0].([]value)
	sort.Slice(x, func(i, j int) bool {
		return x[i].(string) < x[j].(string)
	})
	return nil
}
func ext۰sort۰Float64s(fr *frame, args []value) value {
	x := args[0].([]value)
	sort.Slice(x, func(i, j int) bool {
		return x[i].(float64) < x[j].(float64)
	})
	return nil
}

func ext۰strconv۰Atoi(fr *frame, args []value) value {
	i, e := strconv.Atoi(args[0].(string))
	if e != nil {
		if fr.i.runtimeErrorString != nil {
			return tuple{i, iface{fr.i.runtimeErrorString, e.Error()}}
		}
		return tuple{i, e.Error()}
	}
	return tuple{i, iface{}}
}
func ext۰strconv۰Itoa(fr *frame, args []value) value {
	return strconv.Itoa(args[0].(int))
}
func ext۰strconv۰FormatFloat(fr *frame, args []value) value {
	return strconv.FormatFloat(args[0].(float64), args[1].(byte), args[2].(int), args[3].(int))
}

func ext۰strings۰Count(fr *frame, args []value) value {
	return strings.Count(args[0].(string), args[1].(string))
}

func ext۰strings۰EqualFold(fr *frame, args []value) value {
	return strings.EqualFold(args[0].(string), args[1].(string))
}
func ext۰strings۰IndexByte(fr *frame, args []value) value {
	return strings.IndexByte(args[0].(string), args[1].(byte))
}

func ext۰strings۰Index(fr *frame, args []value) value {
	return strings.Index(args[0].(string), args[1].(string))
}

func ext۰strings۰Replace(fr *frame, args []value) value {
	// func Replace(s, old, new string, n int) string
	s := args[0].(string)
	new := args[1].(string)
	old := args[2].(string)
	n := args[3].(int)
	return strings.Replace(s, old, new, n)
}

func ext۰strings۰ToLower(fr *frame, args []value) value {
	return strings.ToLower(args[0].(string))
}

func ext۰runtime۰GOMAXPROCS(fr *frame, args []value) value {
	// Ignore args[0]; don't let the interpreted program
	// set the interpreter's GOMAXPROCS!
	return runtime.GOMAXPROCS(0)
}

func ext۰runtime۰Goexit(fr *frame, args []value) value {
	// TODO(adonovan): don't kill the interpreter's main goroutine.
	runtime.Goexit()
	return nil
}

func ext۰runtime۰GOROOT(fr *frame, args []value) value {
	return runtime.GOROOT()
}

func ext۰runtime۰GC(fr *frame, args []value) value {
	runtime.GC()
	return nil
}

func ext۰runtime۰Gosched(fr *frame, args []value) value {
	runtime.Gosched()
	return nil
}

func ext۰runtime۰NumCPU(fr *frame, args []value) value {
	return runtime.NumCPU()
}

func ext۰time۰Sleep(fr *frame, args []value) value {
	time.Sleep(time.Duration(args[0].(int64)))
	return nil
}

func ext۰os۰Getenv(fr *frame, args []value) value {
	name := args[0].(string)
	switch name {
	case "GOSSAINTERP":
		return "1"
	}
	return os.Getenv(name)
}

func ext۰os۰Exit(fr *frame, args []value) value {
	panic(exitPanic(args[0].(int)))
}

func ext۰unicode۰utf8۰DecodeRuneInString(fr *frame, args []value) value {
	r, n := utf8.DecodeRuneInString(args[0].(string))
	return tuple{r, n}
}

// A fake function for turning an arbitrary value into a string.
// Handles only the cases needed by the tests.
// Uses same logic as 'print' built-in.
func ext۰fmt۰Sprint(fr *frame, args []value) value {
	buf := new(bytes.Buffer)
	wasStr := false
	for i, arg := range args[0].([]value) {
		x := arg.(iface).v
		_, isStr := x.(string)
		if i > 0 && !wasStr && !isStr {
			buf.WriteByte(' ')
		}
		wasStr = isStr
		buf.WriteString(toString(x))
	}
	return buf.String()
}
