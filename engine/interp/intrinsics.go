package interp

// Harness intrinsics: the v* functions declared in the harness files.

import (
	"fmt"
	"go/types"
	"math"
)

var intrinsics map[string]externalFn

// Tier is 0 for quick, 1 for thorough (read by harnesses through vTier()).
var Tier = 0

func init() {
	intrinsics = map[string]externalFn{
		"vSymbolic": func(fr *frame, args []value) value { return true },
		"vInt64":    mkVarIntrinsic(64, "int64", types.Typ[types.Int64]),
		"vInt":      mkVarIntrinsic(64, "int", types.Typ[types.Int]),
		"vUint64":   mkVarIntrinsic(64, "uint64", types.Typ[types.Uint64]),
		"vInt32":    mkVarIntrinsic(32, "int32", types.Typ[types.Int32]),
		"vUint32":   mkVarIntrinsic(32, "uint32", types.Typ[types.Uint32]),
		"vUint8":    mkVarIntrinsic(8, "uint8", types.Typ[types.Uint8]),
		"vBool":     vBoolIntrinsic,
		"vFloat64":  vFloatIntrinsic,
		"vChoice":   vChoiceIntrinsic,
		"vAssume":   vAssumeIntrinsic,
		"vAssert":   vAssertIntrinsic,
		"vReach":    vReachIntrinsic,
		"vObserve":  vObserveIntrinsic,
		"vString":   vStringIntrinsic,
		"vBytes":    vBytesIntrinsic,
		"vDone":     func(fr *frame, args []value) value { panic(pathAbort{abDone, ""}) },
		"vMapOrder": vMapOrderIntrinsic,
		"vFormatOpaque": func(fr *frame, args []value) value { fr.i.formatOpaque = args[0].(bool); return nil },
		"vEffects":  vEffectsIntrinsic,
		"vConcreteString": vConcreteStringIntrinsic,
		"vIsConcrete": func(fr *frame, args []value) value { return !hasSym(args[0].(iface).v) },
		"vStepsLeft": func(fr *frame, args []value) value { return int(fr.i.maxSteps - fr.i.steps) },
		"vSetStepBudget": func(fr *frame, args []value) value {
			n := int64(args[0].(int))
			if fr.i.steps+n < fr.i.maxSteps {
				fr.i.maxSteps = fr.i.steps + n
			}
			return nil
		},
		"vTier": func(fr *frame, args []value) value { return Tier },
		"vBudgetOK": func(fr *frame, args []value) value { fr.i.path.budgetOK = true; return nil },
		// vBudgetFails(label): from here on, running out of the step budget on
		// this path is a violation with that label (the program under test is
		// known to need only a bounded number of steps); "" switches it off.
		"vBudgetFails": func(fr *frame, args []value) value {
			fr.i.path.budgetFails = argName(fr, args[0])
			return nil
		},
		"vHavoc": vHavocIntrinsic,
		"vPickString": vPickStringIntrinsic,
		"vSetupOnce": vSetupOnceIntrinsic,
		"vBudgetHit": nil,
	}
	delete(intrinsics, "vBudgetHit")
}

func argName(fr *frame, v value) string {
	s, ok := v.(string)
	if !ok {
		unsupported("intrinsic name must be a concrete string")
	}
	return s
}

func (ps *pathState) concreteVal(name string) (uint64, bool) {
	if !ps.concreteMode {
		return 0, false
	}
	if c := ps.nameCnt[name]; c > 0 {
		ps.nameCnt[name] = c + 1
		name = fmt.Sprintf("%s#%d", name, c)
	} else {
		ps.nameCnt[name] = 1
	}
	return ps.concrete[name], true
}

func mkVarIntrinsic(w int, kind string, t types.Type) externalFn {
	return func(fr *frame, args []value) value {
		ps := fr.i.path
		if ps == nil {
			unsupported("v-intrinsic outside a path")
		}
		name := argName(fr, args[0])
		if v, ok := ps.concreteVal(name); ok {
			return lower(mkBV(w, v), t)
		}
		return ps.newVar(name, bvSort(w), kind)
	}
}

func vBoolIntrinsic(fr *frame, args []value) value {
	ps := fr.i.path
	name := argName(fr, args[0])
	if v, ok := ps.concreteVal(name); ok {
		return v != 0
	}
	return ps.newVar(name, boolSort, "bool")
}

func vFloatIntrinsic(fr *frame, args []value) value {
	ps := fr.i.path
	name := argName(fr, args[0])
	if v, ok := ps.concreteVal(name); ok {
		return math.Float64frombits(v)
	}
	bits := ps.newVar(name, bvSort(64), "float64bits")
	return mk("bits.fp", fp64Sort, bits)
}

func vChoiceIntrinsic(fr *frame, args []value) value {
	ps := fr.i.path
	name := argName(fr, args[0])
	n, ok := args[1].(int)
	if !ok {
		unsupported("vChoice bound must be concrete")
	}
	if c := ps.nameCnt["choice:"+name]; c > 0 {
		ps.nameCnt["choice:"+name] = c + 1
		name = fmt.Sprintf("%s#%d", name, c)
	} else {
		ps.nameCnt["choice:"+name] = 1
	}
	return ps.choice(name, n)
}

func vAssumeIntrinsic(fr *frame, args []value) value {
	fr.i.path.assume(args[0])
	return nil
}

func vAssertIntrinsic(fr *frame, args []value) value {
	label := argName(fr, args[1])
	pos := ""
	if fr.caller != nil {
		pos = fr.caller.fn.String()
	}
	fr.i.path.assert(args[0], label, pos)
	return nil
}

func vReachIntrinsic(fr *frame, args []value) value {
	fr.i.path.res.Reached[argName(fr, args[0])] = true
	return nil
}

func vObserveIntrinsic(fr *frame, args []value) value {
	name := argName(fr, args[0])
	v := args[1].(iface)
	fr.i.path.res.Observes = append(fr.i.path.res.Observes, name+"="+observeString(fr, v))
	return nil
}

func observeString(fr *frame, v iface) string {
	if v.t == nil {
		return "<nil>"
	}
	if hasSym(v.v) {
		return "<symbolic>"
	}
	return fmtValue(fr, v.v, v.t, 'v', false, false, 0)
}

func vStringIntrinsic(fr *frame, args []value) value {
	ps := fr.i.path
	name := argName(fr, args[0])
	n, ok := args[1].(int)
	if !ok {
		unsupported("vString length must be concrete")
	}
	bs := make([]value, n)
	for k := 0; k < n; k++ {
		nm := fmt.Sprintf("%s[%d]", name, k)
		if v, ok := ps.concreteVal(nm); ok {
			bs[k] = uint8(v)
		} else {
			bs[k] = ps.newVar(nm, bvSort(8), "uint8")
		}
	}
	return mkStr(bs)
}

func vBytesIntrinsic(fr *frame, args []value) value {
	s := vStringIntrinsic(fr, args)
	return strBytes(s)
}

func vMapOrderIntrinsic(fr *frame, args []value) value {
	fr.i.mapOrderMode = args[0].(bool)
	fr.i.mapOrderMax = args[1].(int)
	return nil
}

func vEffectsIntrinsic(fr *frame, args []value) value {
	out := make([]value, len(fr.i.effects))
	for k, e := range fr.i.effects {
		out[k] = e
	}
	return out
}

// vConcreteString forces a string to concrete bytes by case split is not
// offered; it aborts the path as unsupported if s is symbolic.
func vConcreteStringIntrinsic(fr *frame, args []value) value {
	if s, ok := args[0].(string); ok {
		return s
	}
	unsupported("vConcreteString on symbolic string")
	return nil
}

// vHavoc(name, ptr, maxStr): every scalar leaf reachable from *ptr through
// struct fields and array elements becomes a fresh symbolic value; strings
// get a case-split length in 0..maxStr and symbolic bytes.  Pointers,
// slices, maps, interfaces, functions and channels are left untouched.
func vHavocIntrinsic(fr *frame, args []value) value {
	name := argName(fr, args[0])
	p := args[1].(iface)
	pt, ok := p.t.Underlying().(*types.Pointer)
	if !ok {
		unsupported("vHavoc needs a pointer")
	}
	maxStr := args[2].(int)
	addr := p.v.(*value)
	havoc(fr, pt.Elem(), addr, name, maxStr)
	return nil
}

func havoc(fr *frame, T types.Type, addr *value, path string, maxStr int) {
	ps := fr.i.path
	switch t := T.Underlying().(type) {
	case *types.Basic:
		switch {
		case t.Info()&types.IsBoolean != 0:
			if v, ok := ps.concreteVal(path); ok {
				fr.i.setCell(addr, v != 0)
			} else {
				fr.i.setCell(addr, ps.newVar(path, boolSort, "bool"))
			}
		case t.Info()&types.IsInteger != 0:
			ki, _ := kindOf(T)
			if v, ok := ps.concreteVal(path); ok {
				fr.i.setCell(addr, lower(mkBV(ki.w, v), T))
			} else {
				fr.i.setCell(addr, ps.newVar(path, bvSort(ki.w), t.Name()))
			}
		case t.Info()&types.IsString != 0:
			n := ps.choice(path+".len", maxStr+1)
			bs := make([]value, n)
			for k := range bs {
				nm := fmt.Sprintf("%s[%d]", path, k)
				if v, ok := ps.concreteVal(nm); ok {
					bs[k] = uint8(v)
				} else {
					bs[k] = ps.newVar(nm, bvSort(8), "uint8")
				}
			}
			fr.i.setCell(addr, mkStr(bs))
		}
	case *types.Struct:
		st := (*addr).(structure)
		for k := 0; k < t.NumFields(); k++ {
			havoc(fr, t.Field(k).Type(), &st[k], path+"."+t.Field(k).Name(), maxStr)
		}
	case *types.Array:
		arr := (*addr).(array)
		for k := range arr {
			havoc(fr, t.Elem(), &arr[k], fmt.Sprintf("%s[%d]", path, k), maxStr)
		}
	case *types.Slice:
		// slices of scalars/strings/structs of those: arbitrary length 0..2
		if !havocable(t.Elem()) {
			return
		}
		bound := maxStr
		if bound > 2 {
			bound = 2
		}
		n := ps.choice(path+".len", bound+1)
		sl := make([]value, n)
		for k := range sl {
			sl[k] = zero(t.Elem())
			havoc(fr, t.Elem(), &sl[k], fmt.Sprintf("%s[%d]", path, k), maxStr)
		}
		fr.i.setCell(addr, sl)
	}
}

func havocable(T types.Type) bool {
	switch t := T.Underlying().(type) {
	case *types.Basic:
		return t.Info()&(types.IsBoolean|types.IsInteger|types.IsString) != 0
	case *types.Struct:
		for k := 0; k < t.NumFields(); k++ {
			if !havocable(t.Field(k).Type()) {
				return false
			}
		}
		return true
	case *types.Array:
		return havocable(t.Elem())
	}
	return false
}

// vSetupOnce(key, f): run f once per worker, outside the undo journal, so
// the (deterministic, concrete) state it builds is shared by all later
// paths of that worker; what paths do to that state is journaled and undone.
func vSetupOnceIntrinsic(fr *frame, args []value) value {
	i := fr.i
	key := argName(fr, args[0])
	if i.setupDone == nil {
		i.setupDone = map[string]bool{}
	}
	if i.setupDone[key] {
		return nil
	}
	saved := i.journalOn
	savedPath := i.path
	savedSteps, savedMax := i.steps, i.maxSteps
	i.journalOn = false
	i.path = nil
	i.maxSteps = 1 << 62
	defer func() {
		i.journalOn = saved
		i.path = savedPath
		i.steps, i.maxSteps = savedSteps, savedMax
	}()
	call(i, fr, 0, args[1], nil)
	i.setupDone[key] = true
	return nil
}

// vPickString(key, options): case split over the options; the chosen
// *string* (not its index) is recorded among the inputs, so that a replay
// against a build whose option list differs still picks the same string.
func vPickStringIntrinsic(fr *frame, args []value) value {
	ps := fr.i.path
	key := argName(fr, args[0])
	opts := args[1].([]value)
	if ps.concreteMode {
		n := int(ps.concrete[key+".len"])
		b := make([]byte, n)
		for k := range b {
			b[k] = byte(ps.concrete[fmt.Sprintf("%s[%d]", key, k)])
		}
		return string(b)
	}
	k := ps.choice(key, len(opts))
	s, ok := opts[k].(string)
	if !ok {
		unsupported("vPickString options must be concrete strings")
	}
	ps.inputs = append(ps.inputs, inputVar{key + ".len", mkBV(64, uint64(len(s))), "int"})
	for j := 0; j < len(s); j++ {
		ps.inputs = append(ps.inputs, inputVar{fmt.Sprintf("%s[%d]", key, j), mkBV(8, uint64(s[j])), "uint8"})
	}
	return s
}
