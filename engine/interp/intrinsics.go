package interp

// Harness intrinsics: the v* functions declared in the harness files.

import (
	"fmt"
	"go/types"
	"math"
)

var intrinsics map[string]externalFn

// Tier is 0 for quick, 1 for thorough (read by harnesses through vTier()).
var Tier = 0

func init() {
	intrinsics = map[string]externalFn{
		"vSymbolic": func(fr *frame, args []value) value { return true },
		"vInt64":    mkVarIntrinsic(64, "int64", types.Typ[types.Int64]),
		"vInt":      mkVarIntrinsic(64, "int", types.Typ[types.Int]),
		"vUint64":   mkVarIntrinsic(64, "uint64", types.Typ[types.Uint64]),
		"vInt32":    mkVarIntrinsic(32, "int32", types.Typ[types.Int32]),
		"vUint32":   mkVarIntrinsic(32, "uint32", types.Typ[types.Uint32]),
		"vUint8":    mkVarIntrinsic(8, "uint8", types.Typ[types.Uint8]),
		"vBool":     vBoolIntrinsic,
		"vFloat64":  vFloatIntrinsic,
		"vChoice":   vChoiceIntrinsic,
		"vAssume":   vAssumeIntrinsic,
		"vAssert":   vAssertIntrinsic,
		"vReach":    vReachIntrinsic,
		"vObserve":  vObserveIntrinsic,
		"vString":   vStringIntrinsic,
		"vBytes":    vBytesIntrinsic,
		"vDone":     func(fr *frame, args []value) value { panic(pathAbort{abDone, ""}) },
		"vMapOrder": vMapOrderIntrinsic,
		"vFormatOpaque": func(fr *frame, args []value) value { fr.i.formatOpaque = args[0].(bool); return nil },
		"vEffects":  vEffectsIntrinsic,
		"vConcreteString": vConcreteStringIntrinsic,
		"vIsConcrete": func(fr *frame, args []value) value { return !hasSym(args[0].(iface).v) },
		"vStepsLeft": func(fr *frame, args []value) value { return int(fr.i.maxSteps - fr.i.steps) },
		"vSetStepBudget": func(fr *frame, args []value) value {
			n := int64(args[0].(int))
			if fr.i.steps+n < fr.i.maxSteps {
				fr.i.maxSteps = fr.i.steps + n
			}
			return nil
		},
		"vTier": func(fr *frame, args []value) value { return Tier },
		"vBudgetOK": func(fr *frame, args []value) value { fr.i.path.budgetOK = true; return nil },
		"vBudgetHit": nil,
	}
	delete(intrinsics, "vBudgetHit")
}

func argName(fr *frame, v value) string {
	s, ok := v.(string)
	if !ok {
		unsupported("intrinsic name must be a concrete string")
	}
	return s
}

func (ps *pathState) concreteVal(name string) (uint64, bool) {
	if !ps.concreteMode {
		return 0, false
	}
	if c := ps.nameCnt[name]; c > 0 {
		ps.nameCnt[name] = c + 1
		name = fmt.Sprintf("%s#%d", name, c)
	} else {
		ps.nameCnt[name] = 1
	}
	return ps.concrete[name], true
}

func mkVarIntrinsic(w int, kind string, t types.Type) externalFn {
	return func(fr *frame, args []value) value {
		ps := fr.i.path
		if ps == nil {
			unsupported("v-intrinsic outside a path")
		}
		name := argName(fr, args[0])
		if v, ok := ps.concreteVal(name); ok {
			return lower(mkBV(w, v), t)
		}
		return ps.newVar(name, bvSort(w), kind)
	}
}

func vBoolIntrinsic(fr *frame, args []value) value {
	ps := fr.i.path
	name := argName(fr, args[0])
	if v, ok := ps.concreteVal(name); ok {
		return v != 0
	}
	return ps.newVar(name, boolSort, "bool")
}

func vFloatIntrinsic(fr *frame, args []value) value {
	ps := fr.i.path
	name := argName(fr, args[0])
	if v, ok := ps.concreteVal(name); ok {
		return math.Float64frombits(v)
	}
	bits := ps.newVar(name, bvSort(64), "float64bits")
	return mk("bits.fp", fp64Sort, bits)
}

func vChoiceIntrinsic(fr *frame, args []value) value {
	ps := fr.i.path
	name := argName(fr, args[0])
	n, ok := args[1].(int)
	if !ok {
		unsupported("vChoice bound must be concrete")
	}
	if c := ps.nameCnt["choice:"+name]; c > 0 {
		ps.nameCnt["choice:"+name] = c + 1
		name = fmt.Sprintf("%s#%d", name, c)
	} else {
		ps.nameCnt["choice:"+name] = 1
	}
	return ps.choice(name, n)
}

func vAssumeIntrinsic(fr *frame, args []value) value {
	fr.i.path.assume(args[0])
	return nil
}

func vAssertIntrinsic(fr *frame, args []value) value {
	label := argName(fr, args[1])
	pos := ""
	if fr.caller != nil {
		pos = fr.caller.fn.String()
	}
	fr.i.path.assert(args[0], label, pos)
	return nil
}

func vReachIntrinsic(fr *frame, args []value) value {
	fr.i.path.res.Reached[argName(fr, args[0])] = true
	return nil
}

func vObserveIntrinsic(fr *frame, args []value) value {
	name := argName(fr, args[0])
	v := args[1].(iface)
	fr.i.path.res.Observes = append(fr.i.path.res.Observes, name+"="+observeString(fr, v))
	return nil
}

func observeString(fr *frame, v iface) string {
	if v.t == nil {
		return "<nil>"
	}
	if hasSym(v.v) {
		return "<symbolic>"
	}
	return fmtValue(fr, v.v, v.t, 'v', false, false, 0)
}

func vStringIntrinsic(fr *frame, args []value) value {
	ps := fr.i.path
	name := argName(fr, args[0])
	n, ok := args[1].(int)
	if !ok {
		unsupported("vString length must be concrete")
	}
	bs := make([]value, n)
	for k := 0; k < n; k++ {
		nm := fmt.Sprintf("%s[%d]", name, k)
		if v, ok := ps.concreteVal(nm); ok {
			bs[k] = uint8(v)
		} else {
			bs[k] = ps.newVar(nm, bvSort(8), "uint8")
		}
	}
	return mkStr(bs)
}

func vBytesIntrinsic(fr *frame, args []value) value {
	s := vStringIntrinsic(fr, args)
	return strBytes(s)
}

func vMapOrderIntrinsic(fr *frame, args []value) value {
	fr.i.mapOrderMode = args[0].(bool)
	fr.i.mapOrderMax = args[1].(int)
	return nil
}

func vEffectsIntrinsic(fr *frame, args []value) value {
	out := make([]value, len(fr.i.effects))
	for k, e := range fr.i.effects {
		out[k] = e
	}
	return out
}

// vConcreteString forces a string to concrete bytes by case split is not
// offered; it aborts the path as unsupported if s is symbolic.
func vConcreteStringIntrinsic(fr *frame, args []value) value {
	if s, ok := args[0].(string); ok {
		return s
	}
	unsupported("vConcreteString on symbolic string")
	return nil
}
