package interp

// Strings whose bytes may be symbolic.  Lengths are always concrete.

import (
	"fmt"
	"go/token"
	"go/types"
	"unicode/utf8"
)

// symstr is an immutable string with at least one symbolic byte.
// Each element is a uint8 or a *Term of sort (_ BitVec 8).
type symstr struct{ b []value }

func isStr(v value) bool {
	switch v.(type) {
	case string, symstr:
		return true
	}
	return false
}

func strLen(v value) int {
	switch s := v.(type) {
	case string:
		return len(s)
	case symstr:
		return len(s.b)
	}
	panic(fmt.Sprintf("strLen: %T", v))
}

// strBytes returns the bytes of a string value (fresh slice).
func strBytes(v value) []value {
	switch s := v.(type) {
	case string:
		out := make([]value, len(s))
		for i := 0; i < len(s); i++ {
			out[i] = s[i]
		}
		return out
	case symstr:
		return append([]value(nil), s.b...)
	}
	panic(fmt.Sprintf("strBytes: %T", v))
}

// mkStr builds a string value from bytes (normalising to a Go string when
// every byte is concrete).  It takes ownership of bs.
func mkStr(bs []value) value {
	conc := true
	for _, b := range bs {
		if _, ok := b.(uint8); !ok {
			conc = false
			break
		}
	}
	if conc {
		out := make([]byte, len(bs))
		for i, b := range bs {
			out[i] = b.(uint8)
		}
		return string(out)
	}
	for i, b := range bs {
		if t, ok := b.(*Term); ok && t.isConst() {
			bs[i] = uint8(t.val)
		}
	}
	return symstr{bs}
}

func strConcat(x, y value) value {
	if xs, ok := x.(string); ok {
		if ys, ok := y.(string); ok {
			return xs + ys
		}
	}
	return mkStr(append(strBytes(x), strBytes(y)...))
}

func strByteAt(s value, i int) value {
	switch s := s.(type) {
	case string:
		return s[i]
	case symstr:
		return s.b[i]
	}
	panic("strByteAt")
}

func strSlice(s value, l, h int) value {
	switch s := s.(type) {
	case string:
		return s[l:h]
	case symstr:
		return mkStr(append([]value(nil), s.b[l:h]...))
	}
	panic("strSlice")
}

// strEq returns bool or *Term.
func strEq(x, y value) value {
	if xs, ok := x.(string); ok {
		if ys, ok := y.(string); ok {
			return xs == ys
		}
	}
	if strLen(x) != strLen(y) {
		return false
	}
	var acc value = true
	n := strLen(x)
	for i := 0; i < n; i++ {
		a, b := strByteAt(x, i), strByteAt(y, i)
		if ab, ok := a.(uint8); ok {
			if bb, ok := b.(uint8); ok {
				if ab != bb {
					return false
				}
				continue
			}
		}
		e := tEq(toTerm(a), toTerm(b))
		if e.isConst() {
			if e.val == 0 {
				return false
			}
			continue
		}
		acc = vAnd(acc, e)
	}
	return acc
}

// strLess returns x < y (bool or *Term), lexicographic on bytes.
func strLess(x, y value) value {
	if xs, ok := x.(string); ok {
		if ys, ok := y.(string); ok {
			return xs < ys
		}
	}
	nx, ny := strLen(x), strLen(y)
	n := nx
	if ny < n {
		n = ny
	}
	// fold from the end: less_i = a_i<b_i || (a_i==b_i && less_{i+1})
	var less *Term = mkBool(nx < ny)
	for i := n - 1; i >= 0; i-- {
		a, b := toTerm(strByteAt(x, i)), toTerm(strByteAt(y, i))
		less = tOr(mk("bvult", boolSort, a, b), tAnd(tEq(a, b), less))
	}
	if less.isConst() {
		return less.val == 1
	}
	return less
}

func strCompareOp(op token.Token, x, y value) value {
	switch op {
	case token.EQL:
		return strEq(x, y)
	case token.NEQ:
		return vNot(strEq(x, y))
	case token.LSS:
		return strLess(x, y)
	case token.GTR:
		return strLess(y, x)
	case token.LEQ:
		return vNot(strLess(y, x))
	case token.GEQ:
		return vNot(strLess(x, y))
	}
	panic("strCompareOp")
}

// hasSym reports whether v (followed through aggregates, not pointers)
// contains a symbolic scalar.
func hasSym(v value) bool {
	switch v := v.(type) {
	case *Term, symstr:
		return true
	case structure:
		for _, e := range v {
			if hasSym(e) {
				return true
			}
		}
	case array:
		for _, e := range v {
			if hasSym(e) {
				return true
			}
		}
	case iface:
		return hasSym(v.v)
	}
	return false
}

// symbolic UTF-8: decode the first rune of s by interpreting the real
// unicode/utf8.DecodeRuneInString on the symbolic bytes.
func (i *interpreter) decodeRune(fr *frame, s value) (r value, size int) {
	if cs, ok := s.(string); ok {
		rr, n := utf8.DecodeRuneInString(cs)
		return rr, n
	}
	fn := i.utf8DecodeRuneInString
	if fn == nil {
		unsupported("unicode/utf8 not in program: cannot decode symbolic string")
	}
	// only the first 4 bytes matter
	ss := s
	if strLen(s) > 4 {
		ss = strSlice(s, 0, 4)
	}
	res := call(i, fr, token.NoPos, fn, []value{ss}).(tuple)
	n, ok := res[1].(int)
	if !ok {
		n64, _ := i.concretizeInt(res[1], true, 0, 4, token.NoPos)
		n = int(n64)
	}
	return res[0], n
}

// encodeRune returns string(r) for a possibly symbolic rune.
func (i *interpreter) encodeRune(fr *frame, r value) value {
	if rt, ok := r.(*Term); ok {
		fn := i.utf8AppendRune
		if fn == nil {
			unsupported("unicode/utf8 not in program: cannot encode symbolic rune")
		}
		if rt.sort.w != 32 {
			// string(int64) etc: out of range values become U+FFFD
			w := rt.sort.w
			if w > 32 {
				inr := mk("bvule", boolSort, rt, mkBV(w, 0x10FFFF))
				if !i.branch(inr, token.NoPos) {
					return "�"
				}
				rt = mkP("extract", bvSort(32), 31, 0, rt)
			} else {
				rt = mkP("zero_extend", bvSort(32), 32-w, 0, rt)
			}
		}
		out := call(i, fr, token.NoPos, fn, []value{[]value(nil), rt}).([]value)
		return mkStr(append([]value(nil), out...))
	}
	return string(rune(asInt64(r)))
}

type symStringIter struct {
	i   *interpreter
	fr  *frame
	s   value
	pos int
}

func (it *symStringIter) next() tuple {
	okv := make(tuple, 3)
	n := strLen(it.s)
	if it.pos >= n {
		okv[0] = false
		return okv
	}
	r, size := it.i.decodeRune(it.fr, strSlice(it.s, it.pos, n))
	okv[0] = true
	okv[1] = it.pos
	okv[2] = r
	it.pos += size
	return okv
}

var _ = types.Typ
