package interp

// Symbolic scalar operations: the symbolic cases of binop/unop/conv/equals.

import (
	"fmt"
	"os"
	"go/token"
	"go/types"
	"math"
)

func isSym(v value) bool {
	_, ok := v.(*Term)
	return ok
}

type kindInfo struct {
	w      int
	signed bool
	float  bool
	boolean bool
}

func basicOf(t types.Type) *types.Basic {
	if t == nil {
		return nil
	}
	b, _ := t.Underlying().(*types.Basic)
	return b
}

func kindOf(t types.Type) (kindInfo, bool) {
	b := basicOf(t)
	if b == nil {
		return kindInfo{}, false
	}
	switch b.Kind() {
	case types.Bool, types.UntypedBool:
		return kindInfo{boolean: true, w: 1}, true
	case types.Int, types.Int64, types.UntypedInt:
		return kindInfo{w: 64, signed: true}, true
	case types.Int8:
		return kindInfo{w: 8, signed: true}, true
	case types.Int16:
		return kindInfo{w: 16, signed: true}, true
	case types.Int32, types.UntypedRune:
		return kindInfo{w: 32, signed: true}, true
	case types.Uint, types.Uint64, types.Uintptr:
		return kindInfo{w: 64}, true
	case types.Uint8:
		return kindInfo{w: 8}, true
	case types.Uint16:
		return kindInfo{w: 16}, true
	case types.Uint32:
		return kindInfo{w: 32}, true
	case types.Float64, types.UntypedFloat:
		return kindInfo{w: 64, float: true}, true
	case types.Float32:
		// conversions only: a symbolic float32 is the float64 term it widens
		// to; arithmetic in float32 is not encoded (see symBinop)
		return kindInfo{w: 32, float: true}, true
	}
	return kindInfo{}, false
}

// toTerm lifts a concrete scalar (or passes a term through).
func toTerm(v value) *Term {
	switch v := v.(type) {
	case *Term:
		return v
	case bool:
		return mkBool(v)
	case int:
		return mkBV(64, uint64(v))
	case int8:
		return mkBV(8, uint64(v))
	case int16:
		return mkBV(16, uint64(v))
	case int32:
		return mkBV(32, uint64(v))
	case int64:
		return mkBV(64, uint64(v))
	case uint:
		return mkBV(64, uint64(v))
	case uint8:
		return mkBV(8, uint64(v))
	case uint16:
		return mkBV(16, uint64(v))
	case uint32:
		return mkBV(32, uint64(v))
	case uint64:
		return mkBV(64, v)
	case uintptr:
		return mkBV(64, uint64(v))
	case float64:
		return mkFP(v)
	case float32:
		return mkFP(float64(v))
	}
	panic(pathAbort{abUnsupported, fmt.Sprintf("toTerm: cannot lift %T", v)})
}

// lower turns a constant term back into a concrete Go value of static type t.
func lower(tm *Term, t types.Type) value {
	if !tm.isConst() {
		return tm
	}
	b := basicOf(t)
	if b == nil {
		return tm
	}
	switch b.Kind() {
	case types.Bool, types.UntypedBool:
		return tm.val == 1
	case types.Int, types.UntypedInt:
		return int(tm.val)
	case types.Int8:
		return int8(tm.val)
	case types.Int16:
		return int16(tm.val)
	case types.Int32, types.UntypedRune:
		return int32(tm.val)
	case types.Int64:
		return int64(tm.val)
	case types.Uint:
		return uint(tm.val)
	case types.Uint8:
		return uint8(tm.val)
	case types.Uint16:
		return uint16(tm.val)
	case types.Uint32:
		return uint32(tm.val)
	case types.Uint64:
		return uint64(tm.val)
	case types.Uintptr:
		return uintptr(tm.val)
	case types.Float64, types.UntypedFloat:
		return math.Float64frombits(tm.val)
	case types.Float32:
		return float32(math.Float64frombits(tm.val))
	}
	return tm
}

func unsupported(format string, args ...any) {
	panic(pathAbort{abUnsupported, fmt.Sprintf(format, args...)})
}

// symBinop: at least one of x,y is a *Term.  t is the static type of x.
func symBinop(fr *frame, op token.Token, t types.Type, x, y value, pos token.Pos) value {
	ki, ok := kindOf(t)
	if !ok {
		unsupported("symBinop on type %v", t)
	}
	a := toTerm(x)
	var b *Term
	if op == token.SHL || op == token.SHR {
		b = shiftAmount(fr, a, y, pos)
	} else {
		b = toTerm(y)
	}
	if a.sort != b.sort {
		unsupported("symBinop sort mismatch %v %s %v", a.sort, op, b.sort)
	}
	res := func(tm *Term) value { return lower(tm, t) }
	bres := func(tm *Term) value {
		if tm.isConst() {
			return tm.val == 1
		}
		return tm
	}
	if ki.boolean {
		switch op {
		case token.EQL:
			return bres(tEq(a, b))
		case token.NEQ:
			return bres(tNot(tEq(a, b)))
		case token.AND, token.LAND:
			return bres(tAnd(a, b))
		case token.OR, token.LOR:
			return bres(tOr(a, b))
		}
		unsupported("bool binop %s", op)
	}
	if ki.float && ki.w == 32 {
		switch op {
		case token.ADD, token.SUB, token.MUL, token.QUO:
			unsupported("symbolic float32 arithmetic")
		}
	}
	if ki.float {
		switch op {
		case token.ADD:
			return res(mk("fp.add", fp64Sort, a, b))
		case token.SUB:
			return res(mk("fp.sub", fp64Sort, a, b))
		case token.MUL:
			return res(mk("fp.mul", fp64Sort, a, b))
		case token.QUO:
			return res(mk("fp.div", fp64Sort, a, b))
		case token.LSS:
			return bres(mk("fp.lt", boolSort, a, b))
		case token.LEQ:
			return bres(mk("fp.leq", boolSort, a, b))
		case token.GTR:
			return bres(mk("fp.gt", boolSort, a, b))
		case token.GEQ:
			return bres(mk("fp.geq", boolSort, a, b))
		case token.EQL:
			return bres(mk("fp.eq", boolSort, a, b))
		case token.NEQ:
			return bres(tNot(mk("fp.eq", boolSort, a, b)))
		}
		unsupported("float binop %s", op)
	}
	s := a.sort
	sel := func(signedOp, unsignedOp string) string {
		if ki.signed {
			return signedOp
		}
		return unsignedOp
	}
	switch op {
	case token.ADD:
		return res(mk("bvadd", s, a, b))
	case token.SUB:
		return res(mk("bvsub", s, a, b))
	case token.MUL:
		return res(mk("bvmul", s, a, b))
	case token.QUO, token.REM:
		// divisor zero => run-time panic
		if fr.i.branch(tEq(b, mkBV(s.w, 0)), pos) {
			panic(fr.i.runtimeError("integer divide by zero"))
		}
		if op == token.QUO {
			return res(mk(sel("bvsdiv", "bvudiv"), s, a, b))
		}
		return res(mk(sel("bvsrem", "bvurem"), s, a, b))
	case token.AND:
		return res(mk("bvand", s, a, b))
	case token.OR:
		return res(mk("bvor", s, a, b))
	case token.XOR:
		return res(mk("bvxor", s, a, b))
	case token.AND_NOT:
		return res(mk("bvand", s, a, mk("bvnot", s, b)))
	case token.SHL:
		return res(mk("bvshl", s, a, b))
	case token.SHR:
		return res(mk(sel("bvashr", "bvlshr"), s, a, b))
	case token.LSS:
		return bres(mk(sel("bvslt", "bvult"), boolSort, a, b))
	case token.LEQ:
		return bres(mk(sel("bvsle", "bvule"), boolSort, a, b))
	case token.GTR:
		return bres(mk(sel("bvsgt", "bvugt"), boolSort, a, b))
	case token.GEQ:
		return bres(mk(sel("bvsge", "bvuge"), boolSort, a, b))
	case token.EQL:
		return bres(tEq(a, b))
	case token.NEQ:
		return bres(tNot(tEq(a, b)))
	}
	unsupported("int binop %s", op)
	return nil
}

// shiftAmount converts shift count y (any integer type) into a term of
// x's width, saturating at the width (Go: shifts >= width give 0/sign).
func shiftAmount(fr *frame, x *Term, y value, pos token.Pos) *Term {
	w := x.sort.w
	yt, isT := y.(*Term)
	if !isT {
		// concrete count
		var n uint64
		switch y := y.(type) {
		case int, int8, int16, int32, int64:
			v := asInt64(y)
			if v < 0 {
				panic(fr.i.runtimeError("negative shift amount"))
			}
			n = uint64(v)
		default:
			n = asUint64(y)
		}
		if n > uint64(w) {
			n = uint64(w)
		}
		return mkBV(w, n)
	}
	// symbolic count: we do not know signedness here; treat as unsigned
	// (a negative signed count would panic in Go; harnesses do not use it).
	yw := yt.sort.w
	switch {
	case yw == w:
		return yt
	case yw < w:
		return mkP("zero_extend", bvSort(w), w-yw, 0, yt)
	default:
		big := mk("bvuge", boolSort, yt, mkBV(yw, uint64(w)))
		return tIte(big, mkBV(w, uint64(w)), mkP("extract", bvSort(w), w-1, 0, yt))
	}
}

func symUnop(op token.Token, t types.Type, x *Term) value {
	ki, _ := kindOf(t)
	switch op {
	case token.NOT:
		return lower(tNot(x), t)
	case token.SUB:
		if ki.float {
			return lower(mk("fp.neg", fp64Sort, x), t)
		}
		return lower(mk("bvneg", x.sort, x), t)
	case token.XOR:
		return lower(mk("bvnot", x.sort, x), t)
	}
	unsupported("symUnop %s", op)
	return nil
}

// symConvNumeric converts term x of static type src to static type dst.
func symConvNumeric(dst, src types.Type, x *Term) value {
	ks, ok1 := kindOf(src)
	kd, ok2 := kindOf(dst)
	if !ok1 || !ok2 {
		unsupported("symbolic conversion %v -> %v", src, dst)
	}
	switch {
	case ks.boolean || kd.boolean:
		return x
	case ks.float && kd.float:
		if kd.w == 32 && ks.w == 64 {
			return mk("fp.round32", fp64Sort, x)
		}
		return x
	case ks.float: // float -> int
		if kd.signed {
			return lower(mk("fp.to_sbv", bvSort(kd.w), x), dst)
		}
		return lower(mk("fp.to_ubv", bvSort(kd.w), x), dst)
	case kd.float: // int -> float
		var r *Term
		if ks.signed {
			r = mk("to_fp_s", fp64Sort, x)
		} else {
			r = mk("to_fp_u", fp64Sort, x)
		}
		if kd.w == 32 {
			// (exact for |x| < 2^53; beyond that the double rounding may differ from Go's single one)
			return mk("fp.round32", fp64Sort, r)
		}
		return lower(r, dst)
	}
	// int -> int
	switch {
	case kd.w == ks.w:
		return lower(x, dst)
	case kd.w < ks.w:
		return lower(mkP("extract", bvSort(kd.w), kd.w-1, 0, x), dst)
	default:
		if ks.signed {
			return lower(mkP("sign_extend", bvSort(kd.w), kd.w-ks.w, 0, x), dst)
		}
		return lower(mkP("zero_extend", bvSort(kd.w), kd.w-ks.w, 0, x), dst)
	}
}

// symEq returns the (possibly symbolic) equality of two scalars of static
// type t, at least one of which is a term.
func symEq(t types.Type, x, y value) value {
	a, b := toTerm(x), toTerm(y)
	if a.sort != b.sort {
		unsupported("symEq sort mismatch")
	}
	var r *Term
	if a.sort.k == sFP {
		r = mk("fp.eq", boolSort, a, b)
	} else {
		r = tEq(a, b)
	}
	if r.isConst() {
		return r.val == 1
	}
	return r
}

// boolAnd / boolOr / boolNot over values that are bool or *Term.
func vAnd(x, y value) value {
	if xb, ok := x.(bool); ok {
		if !xb {
			return false
		}
		return y
	}
	if yb, ok := y.(bool); ok {
		if !yb {
			return false
		}
		return x
	}
	return tAnd(x.(*Term), y.(*Term))
}

func vNot(x value) value {
	if xb, ok := x.(bool); ok {
		return !xb
	}
	r := tNot(x.(*Term))
	if r.isConst() {
		return r.val == 1
	}
	return r
}

// truth forces a bool-or-term to a concrete decision, forking if needed.
func (i *interpreter) truth(c value, pos token.Pos) bool {
	switch c := c.(type) {
	case bool:
		return c
	case *Term:
		return i.branch(c, pos)
	}
	panic(fmt.Sprintf("truth: unexpected %T", c))
}

func (i *interpreter) branch(c *Term, pos token.Pos) bool {
	if c.isConst() {
		return c.val == 1
	}
	if i.path == nil {
		panic(pathAbort{abEngine, "symbolic branch outside a path"})
	}
	return i.path.branch(c, pos)
}

// concretizeInt forces integer value v (concrete or term) to a concrete
// int64 by case-splitting over [lo,hi]; outside the range the caller's
// onOut is invoked (normally a run-time panic of the target).
func (i *interpreter) concretizeInt(v value, signed bool, lo, hi int64, pos token.Pos) (int64, bool) {
	tm, ok := v.(*Term)
	if !ok {
		n := asInt64(v)
		return n, n >= lo && n <= hi
	}
	w := tm.sort.w
	var inRange *Term
	if signed {
		inRange = tAnd(mk("bvsge", boolSort, tm, mkBV(w, uint64(lo))), mk("bvsle", boolSort, tm, mkBV(w, uint64(hi))))
	} else {
		if lo < 0 {
			lo = 0
		}
		inRange = tAnd(mk("bvuge", boolSort, tm, mkBV(w, uint64(lo))), mk("bvule", boolSort, tm, mkBV(w, uint64(hi))))
	}
	if hi < lo || !i.branch(inRange, pos) {
		return 0, false
	}
	for k := lo; k < hi; k++ {
		if i.branch(tEq(tm, mkBV(w, uint64(k))), token.NoPos) {
			return k, true
		}
	}
	return hi, true
}

func (i *interpreter) runtimeError(msg string) targetPanic {
	if debugStacks {
		fmt.Fprintf(os.Stderr, "target runtime error: %s\n%s", msg, i.targetStack())
	}
	return targetPanic{iface{i.runtimeErrorString, msg}}
}

var debugStacks = os.Getenv("GOSYM_DEBUG") != ""

// concreteString forces every byte of s to a concrete value (case split
// over the feasible values, recorded in the decision log).
func (i *interpreter) concreteString(s value) string {
	switch s := s.(type) {
	case string:
		return s
	case symstr:
		out := make([]byte, len(s.b))
		for k, b := range s.b {
			switch b := b.(type) {
			case uint8:
				out[k] = b
			case *Term:
				out[k] = byte(i.path.concretize(b))
			}
		}
		return string(out)
	}
	panic(fmt.Sprintf("concreteString: %T", s))
}
