package interp

// SMT back end: one long-lived solver process per worker, SMT-LIB2 over a
// pipe, push/pop per path.  Any "(error" line makes the query inconclusive.

import (
	"bufio"
	"fmt"
	"io"
	"os"
	"os/exec"
	"strings"
	"time"
)

type Solver struct {
	kind     string // "z3", "z3-new", "cvc5"
	cmd      *exec.Cmd
	in       *bufio.Writer
	out      *bufio.Reader
	defined  map[*Term]string
	declared map[string]*Term
	nextID   int
	depth    int
	log      io.Writer // optional transcript

	Queries   int
	Sat       int
	Unsat     int
	Unknown   int
	Errors    int
	Retries   int
	SolverDur time.Duration
	timeoutMs int
}

func NewSolver(kind string, timeoutMs int) (*Solver, error) {
	var cmd *exec.Cmd
	switch kind {
	case "z3":
		cmd = exec.Command("z3", "-in", fmt.Sprintf("-t:%d", timeoutMs))
	case "z3-new":
		cmd = exec.Command("z3-new", "-in", fmt.Sprintf("-t:%d", timeoutMs))
	case "cvc5":
		cmd = exec.Command("cvc5", "--incremental", "--produce-models", "--lang=smt2", fmt.Sprintf("--tlimit-per=%d", timeoutMs), "--fp-exp")
	default:
		return nil, fmt.Errorf("unknown solver %q", kind)
	}
	stdin, err := cmd.StdinPipe()
	if err != nil {
		return nil, err
	}
	stdout, err := cmd.StdoutPipe()
	if err != nil {
		return nil, err
	}
	cmd.Stderr = cmd.Stdout
	if err := cmd.Start(); err != nil {
		return nil, err
	}
	s := &Solver{kind: kind, cmd: cmd, in: bufio.NewWriterSize(stdin, 1<<16), out: bufio.NewReaderSize(stdout, 1<<16),
		defined: map[*Term]string{}, declared: map[string]*Term{}, timeoutMs: timeoutMs}
	if p := os.Getenv("GOSYM_SMTLOG"); p != "" {
		f, _ := os.OpenFile(fmt.Sprintf("%s.%d", p, cmd.Process.Pid), os.O_CREATE|os.O_WRONLY|os.O_TRUNC, 0644)
		s.log = f
	}
	s.send("(set-option :print-success false)")
	s.send("(set-option :produce-models true)")
	if kind == "cvc5" {
		s.send("(set-logic ALL)")
	}
	s.send("(declare-fun uf_pow ((_ FloatingPoint 11 53) (_ FloatingPoint 11 53)) (_ FloatingPoint 11 53))")
	s.send("(push 1)")
	return s, nil
}

func (s *Solver) Close() {
	if s == nil || s.cmd == nil {
		return
	}
	s.send("(exit)")
	s.in.Flush()
	done := make(chan struct{})
	go func() { s.cmd.Wait(); close(done) }()
	select {
	case <-done:
	case <-time.After(2 * time.Second):
		s.cmd.Process.Kill()
	}
}

func (s *Solver) send(line string) {
	if s.log != nil {
		fmt.Fprintln(s.log, line)
	}
	s.in.WriteString(line)
	s.in.WriteByte('\n')
}

// readSexp reads one line-or-balanced-sexp answer.
func (s *Solver) readAnswer() (string, error) {
	s.in.Flush()
	var sb strings.Builder
	depth := 0
	started := false
	for {
		line, err := s.out.ReadString('\n')
		if err != nil {
			return sb.String(), err
		}
		if s.log != nil {
			fmt.Fprint(s.log, "; <- ", line)
		}
		t := strings.TrimSpace(line)
		if t == "" && !started {
			continue
		}
		started = true
		inStr := false
		for _, c := range t {
			switch {
			case c == '"':
				inStr = !inStr
			case inStr:
			case c == '(':
				depth++
			case c == ')':
				depth--
			}
		}
		sb.WriteString(t)
		sb.WriteByte(' ')
		if depth <= 0 {
			return strings.TrimSpace(sb.String()), nil
		}
	}
}

// ResetPath drops everything asserted/defined since the last ResetPath.
func (s *Solver) ResetPath() {
	s.send("(pop 1)")
	s.send("(push 1)")
	s.defined = map[*Term]string{}
	s.declared = map[string]*Term{}
	s.nextID = 0
}

// ref returns an SMT expression naming t, emitting declarations and
// definitions as needed (at the current assertion level).
func (s *Solver) ref(t *Term) string {
	switch t.op {
	case "const":
		return constSMT(t)
	case "var":
		if s.declared[t.name] == nil {
			s.declared[t.name] = t
			s.send(fmt.Sprintf("(declare-const %s %s)", t.name, t.sort.smt()))
		}
		return t.name
	}
	if n, ok := s.defined[t]; ok {
		return n
	}
	args := make([]string, len(t.args))
	for i, a := range t.args {
		args[i] = s.ref(a)
	}
	n := fmt.Sprintf("t!%d", s.nextID)
	s.nextID++
	s.send(fmt.Sprintf("(define-fun %s () %s %s)", n, t.sort.smt(), opSMT(t, args)))
	s.defined[t] = n
	return n
}

func (s *Solver) Assert(t *Term) {
	s.send(fmt.Sprintf("(assert %s)", s.ref(t)))
}

// AssertRaw asserts SMT text (used for known-finding region predicates).
func (s *Solver) AssertRaw(txt string) { s.send("(assert " + txt + ")") }

func (s *Solver) check() string {
	t0 := time.Now()
	s.send("(check-sat)")
	ans, err := s.readAnswer()
	s.SolverDur += time.Since(t0)
	s.Queries++
	if err != nil {
		s.Errors++
		return "error: " + err.Error()
	}
	switch {
	case ans == "sat":
		s.Sat++
	case ans == "unsat":
		s.Unsat++
	case strings.HasPrefix(ans, "(error"):
		s.Errors++
		return "error: " + ans
	default:
		s.Unknown++
		return "unknown"
	}
	return ans
}

func (s *Solver) setTimeout(ms int) {
	if s.kind == "cvc5" {
		s.send(fmt.Sprintf("(set-option :tlimit-per %d)", ms))
	} else {
		s.send(fmt.Sprintf("(set-option :timeout %d)", ms))
	}
}

// CheckWith decides sat(asserted ∧ extra...).  When the answer is sat and
// wantModel, it returns a model of all declared variables.
func (s *Solver) CheckWith(wantModel bool, raw []string, extra ...*Term) (string, map[string]uint64) {
	names := make([]string, len(extra))
	for i, e := range extra {
		names[i] = s.ref(e)
	}
	s.send("(push 1)")
	for _, n := range names {
		s.send(fmt.Sprintf("(assert %s)", n))
	}
	for _, r := range raw {
		s.send("(assert " + r + ")")
	}
	res := s.check()
	if res == "unknown" {
		// a timeout under machine load is not a verdict: ask once more with
		// four times the time before giving the query up as undecided
		s.setTimeout(4 * s.timeoutMs)
		s.Unknown--
		res = s.check()
		s.setTimeout(s.timeoutMs)
		s.Retries++
	}
	var model map[string]uint64
	if res == "sat" && wantModel {
		model = s.getModel()
	}
	s.send("(pop 1)")
	return res, model
}

func (s *Solver) getModel() map[string]uint64 {
	model := map[string]uint64{}
	if len(s.declared) == 0 {
		return model
	}
	var names []string
	for n := range s.declared {
		names = append(names, n)
	}
	s.send("(get-value (" + strings.Join(names, " ") + "))")
	ans, err := s.readAnswer()
	if err != nil || strings.HasPrefix(ans, "(error") {
		s.Errors++
		return nil
	}
	// ((name value) (name value) ...)
	toks := tokenizeSexp(ans)
	// parse pairs at depth 2
	i := 0
	if i < len(toks) && toks[i] == "(" {
		i++
	}
	for i < len(toks) && toks[i] == "(" {
		i++
		name := toks[i]
		i++
		// value: either atom or nested
		var val []string
		if toks[i] == "(" {
			d := 0
			for {
				val = append(val, toks[i])
				if toks[i] == "(" {
					d++
				} else if toks[i] == ")" {
					d--
				}
				i++
				if d == 0 {
					break
				}
			}
		} else {
			val = []string{toks[i]}
			i++
		}
		if i < len(toks) && toks[i] == ")" {
			i++
		}
		if len(val) == 1 {
			if !strings.HasPrefix(name, "|") {
				name = "|" + name + "|"
			}
			model[name] = parseSMTConst(val[0])
		}
	}
	return model
}

func tokenizeSexp(s string) []string {
	var toks []string
	cur := ""
	flush := func() {
		if cur != "" {
			toks = append(toks, cur)
			cur = ""
		}
	}
	for _, c := range s {
		switch c {
		case '(', ')':
			flush()
			toks = append(toks, string(c))
		case ' ', '\t', '\n', '\r':
			flush()
		default:
			cur += string(c)
		}
	}
	flush()
	return toks
}

func parseSMTConst(s string) uint64 {
	var v uint64
	switch {
	case s == "true":
		return 1
	case s == "false":
		return 0
	case strings.HasPrefix(s, "#x"):
		fmt.Sscanf(s[2:], "%x", &v)
	case strings.HasPrefix(s, "#b"):
		for _, c := range s[2:] {
			v = v<<1 | uint64(c-'0')
		}
	}
	return v
}
