package interp

// A model of package fmt over interpreter values.  Formatting of basic
// kinds is delegated to the host fmt; error/Stringer arguments call the
// interpreted method; symbolic operands become opaque text.

import (
	"fmt"
	"go/token"
	"go/types"
	"strings"
	"unsafe"

	"golang.org/x/tools/go/ssa"
)

// opaqueStr is text whose content is unknown to the engine (it mentions
// symbolic values).  It may be concatenated and passed around; inspecting
// it aborts the path as unsupported.
const opaqueMark = "\x00<opaque>\x00"

func qualifier(p *types.Package) string { return p.Name() }

func typeString(t types.Type) string {
	if t == nil {
		return "<nil>"
	}
	return types.TypeString(t, qualifier)
}

// hostScalar converts a concrete interpreter scalar to the host value fmt
// should see for static type t (named types lose their methods here; the
// caller has already tried Error/String).
func hostScalar(v value) (any, bool) {
	switch v := v.(type) {
	case bool, int, int8, int16, int32, int64, uint, uint8, uint16, uint32, uint64, uintptr, float32, float64, complex64, complex128, string:
		return v, true
	}
	return nil, false
}

func (i *interpreter) findMethod(t types.Type, name string) *ssa.Function {
	if t == nil {
		return nil
	}
	if _, ok := t.Underlying().(*types.Interface); ok {
		return nil
	}
	ms := i.prog.MethodSets.MethodSet(t)
	for k := 0; k < ms.Len(); k++ {
		sel := ms.At(k)
		if sel.Obj().Name() == name {
			sig := sel.Type().(*types.Signature)
			if sig.Params().Len() == 0 && sig.Results().Len() == 1 {
				if b, ok := sig.Results().At(0).Type().Underlying().(*types.Basic); ok && b.Kind() == types.String {
					return i.prog.MethodValue(sel)
				}
			}
		}
	}
	return nil
}

// fmtValue renders v (static/dynamic type t) for verb.
func fmtValue(fr *frame, v value, t types.Type, verb rune, plus, sharp bool, depth int) string {
	i := fr.i
	if t == nil {
		return "<nil>"
	}
	if depth > 4 {
		return "..."
	}
	if verb == 'T' {
		return typeString(t)
	}
	// error / Stringer
	if verb == 'v' || verb == 's' || verb == 'q' {
		if !sharp {
			for _, mname := range []string{"Error", "String"} {
				if m := i.findMethod(t, mname); m != nil {
					if p, ok := v.(*value); ok && p == nil {
						return "<nil>"
					}
					out := call(i, fr, token.NoPos, m, []value{v})
					switch s := out.(type) {
					case string:
						if verb == 'q' {
							return fmt.Sprintf("%q", s)
						}
						return s
					case symstr:
						return opaqueMark
					}
				}
			}
		}
	}
	switch tv := v.(type) {
	case *Term:
		return opaqueMark
	case symstr:
		return opaqueMark
	case iface:
		if tv.t == nil {
			return "<nil>"
		}
		return fmtValue(fr, tv.v, tv.t, verb, plus, sharp, depth)
	}
	if hv, ok := hostScalar(v); ok {
		spec := "%"
		if plus {
			spec += "+"
		}
		if sharp {
			spec += "#"
		}
		return fmt.Sprintf(spec+string(verb), hv)
	}
	switch tv := v.(type) {
	case *value:
		if tv == nil {
			return "<nil>"
		}
		if verb == 'p' || depth > 0 {
			if sharp && verb == 'v' {
				return fmt.Sprintf("(%s)(0x%x)", typeString(t), uintptr(unsafe.Pointer(tv)))
			}
			return fmt.Sprintf("0x%x", uintptr(unsafe.Pointer(tv)))
		}
		if pt, ok := t.Underlying().(*types.Pointer); ok {
			switch pt.Elem().Underlying().(type) {
			case *types.Struct, *types.Array, *types.Slice, *types.Map:
				return "&" + fmtValue(fr, load(pt.Elem(), tv), pt.Elem(), verb, plus, sharp, depth+1)
			}
		}
		return fmt.Sprintf("0x%x", uintptr(unsafe.Pointer(tv)))
	case []value:
		var et types.Type
		if st, ok := t.Underlying().(*types.Slice); ok {
			et = st.Elem()
		}
		if sharp && verb == 'v' {
			// Go-syntax representation
			if tv == nil {
				return typeString(t) + "(nil)"
			}
			parts := make([]string, len(tv))
			for k, e := range tv {
				parts[k] = fmtValue(fr, e, et, verb, plus, sharp, depth+1)
			}
			return typeString(t) + "{" + strings.Join(parts, ", ") + "}"
		}
		if et != nil {
			if b, ok := et.Underlying().(*types.Basic); ok && b.Kind() == types.Uint8 && (verb == 's' || verb == 'x' || verb == 'q') {
				s := mkStr(append([]value(nil), tv...))
				if cs, ok := s.(string); ok {
					return fmt.Sprintf("%"+string(verb), cs)
				}
				return opaqueMark
			}
		}
		parts := make([]string, len(tv))
		for k, e := range tv {
			parts[k] = fmtValue(fr, e, et, verb, plus, sharp, depth+1)
		}
		return "[" + strings.Join(parts, " ") + "]"
	case array:
		var et types.Type
		if at, ok := t.Underlying().(*types.Array); ok {
			et = at.Elem()
		}
		parts := make([]string, len(tv))
		for k, e := range tv {
			parts[k] = fmtValue(fr, e, et, verb, plus, sharp, depth+1)
		}
		return "[" + strings.Join(parts, " ") + "]"
	case structure:
		st, _ := t.Underlying().(*types.Struct)
		if sharp && verb == 'v' && st != nil {
			parts := make([]string, len(tv))
			for k, e := range tv {
				parts[k] = st.Field(k).Name() + ":" + fmtValue(fr, e, st.Field(k).Type(), verb, plus, sharp, depth+1)
			}
			return typeString(t) + "{" + strings.Join(parts, ", ") + "}"
		}
		parts := make([]string, len(tv))
		for k, e := range tv {
			var ft types.Type
			name := ""
			if st != nil {
				ft = st.Field(k).Type()
				name = st.Field(k).Name()
			}
			parts[k] = fmtValue(fr, e, ft, verb, plus, sharp, depth+1)
			if plus || sharp {
				parts[k] = name + ":" + parts[k]
			}
		}
		return "{" + strings.Join(parts, " ") + "}"
	case *omap:
		mt, _ := t.Underlying().(*types.Map)
		var parts []string
		if tv != nil {
			for p, k := range tv.keys {
				if tv.live[p] {
					var kt, vt types.Type
					if mt != nil {
						kt, vt = mt.Key(), mt.Elem()
					}
					parts = append(parts, fmtValue(fr, k, kt, verb, plus, sharp, depth+1)+":"+fmtValue(fr, tv.vals[p], vt, verb, plus, sharp, depth+1))
				}
			}
		}
		return "map[" + strings.Join(parts, " ") + "]"
	case *ssa.Function, *closure, *ssa.Builtin:
		return "0xf00"
	case rtype:
		return typeString(tv.t)
	case unsafe.Pointer:
		return fmt.Sprintf("0x%x", uintptr(tv))
	case chan value:
		return "0xc4a"
	}
	return fmt.Sprintf("<%T>", v)
}

// sprintf implements the formatting directives zygo uses.
func sprintf(fr *frame, format string, args []value) value {
	var sb strings.Builder
	opaque := false
	argi := 0
	n := len(format)
	for p := 0; p < n; {
		c := format[p]
		if c != '%' {
			sb.WriteByte(c)
			p++
			continue
		}
		p++
		if p >= n {
			sb.WriteString("%!(NOVERB)")
			break
		}
		plus, sharp := false, false
		flags := ""
		for p < n && strings.IndexByte("+-# 0", format[p]) >= 0 {
			if format[p] == '+' {
				plus = true
			}
			if format[p] == '#' {
				sharp = true
			}
			flags += string(format[p])
			p++
		}
		wp := ""
		for p < n && (format[p] >= '0' && format[p] <= '9' || format[p] == '.' || format[p] == '*') {
			if format[p] == '*' {
				if argi < len(args) {
					if w, ok := args[argi].(iface).v.(int); ok {
						wp += fmt.Sprint(w)
					}
					argi++
				}
			} else {
				wp += string(format[p])
			}
			p++
		}
		if p >= n {
			sb.WriteString("%!(NOVERB)")
			break
		}
		// verbs are ASCII in all formats zygo uses
		verb := rune(format[p])
		p++
		if verb == '%' {
			sb.WriteByte('%')
			continue
		}
		if argi >= len(args) {
			sb.WriteString("%!" + string(verb) + "(MISSING)")
			continue
		}
		a := args[argi].(iface)
		argi++
		if a.t == nil {
			if verb == 'T' || verb == 'v' || verb == 's' || verb == 'd' {
				if verb == 'v' || verb == 'T' {
					sb.WriteString("<nil>")
				} else {
					sb.WriteString("%!" + string(verb) + "(<nil>)")
				}
				continue
			}
			sb.WriteString("%!" + string(verb) + "(<nil>)")
			continue
		}
		// %c with a symbolic rune: real encoding (the lexer builds
		// operator names this way)
		if verb == 'c' {
			if _, ok := a.v.(*Term); ok {
				enc := fr.i.encodeRune(fr, a.v)
				if opaque {
					continue
				}
				// splice symbolic bytes: switch to building a value string
				return spliceSym(fr, sb.String(), enc, format[p:], args[argi:])
			}
		}
		if verb == 'x' && flags == "0" && wp != "" {
			if tm, ok := a.v.(*Term); ok && tm.sort.k == sBV {
				// zero-padded hex of a symbolic integer: exact digits when
				// the value fits the width (else unsupported)
				var w int
				fmt.Sscanf(wp, "%d", &w)
				if w >= 1 && w <= 8 && 4*w <= 64 {
					bits := tm.sort.w
					fits := termTrue
					if 4*w < bits {
						fits = mk("bvult", boolSort, tm, mkBV(bits, uint64(1)<<uint(4*w)))
					}
					if fr.i.branch(fits, token.NoPos) {
						digs := make([]value, w)
						for k := 0; k < w; k++ {
							sh := uint64(4 * (w - 1 - k))
							nib := mk("bvand", tm.sort, mk("bvlshr", tm.sort, tm, mkBV(bits, sh)), mkBV(bits, 15))
							n8 := nib
							if bits > 8 {
								n8 = mkP("extract", bvSort(8), 7, 0, nib)
							}
							digs[k] = tIte(mk("bvult", boolSort, n8, mkBV(8, 10)),
								mk("bvadd", bvSort(8), n8, mkBV(8, '0')),
								mk("bvadd", bvSort(8), n8, mkBV(8, 'a'-10)))
						}
						return spliceSym(fr, sb.String(), mkStr(digs), format[p:], args[argi:])
					}
				}
			}
		}
		if verb == 's' || verb == 'v' {
			if ss, ok := a.v.(symstr); ok && flags == "" && wp == "" {
				return spliceSym(fr, sb.String(), ss, format[p:], args[argi:])
			}
		}
		var piece string
		if hv, ok := hostScalar(a.v); ok && fr.i.findMethod(a.t, "Error") == nil && fr.i.findMethod(a.t, "String") == nil {
			piece = fmt.Sprintf("%"+flags+wp+string(verb), hv)
		} else {
			piece = fmtValue(fr, a.v, a.t, verb, plus, sharp, 0)
			if wp != "" && !strings.Contains(piece, opaqueMark) {
				piece = fmt.Sprintf("%"+strings.ReplaceAll(flags, "+", "")+wp+"s", piece)
			}
		}
		if strings.Contains(piece, opaqueMark) {
			opaque = true
		}
		sb.WriteString(piece)
	}
	if argi < len(args) {
		sb.WriteString("%!(EXTRA ")
		for k := argi; k < len(args); k++ {
			a := args[k].(iface)
			if k > argi {
				sb.WriteString(", ")
			}
			sb.WriteString(typeString(a.t) + "=" + fmtValue(fr, a.v, a.t, 'v', false, false, 0))
		}
		sb.WriteString(")")
	}
	out := sb.String()
	if opaque || strings.Contains(out, opaqueMark) {
		return "<text mentioning symbolic values>"
	}
	return out
}

// spliceSym continues formatting after a symbolic piece.
func spliceSym(fr *frame, prefix string, sym value, restFormat string, restArgs []value) value {
	rest := sprintf(fr, restFormat, restArgs)
	return strConcat(strConcat(prefix, sym), rest)
}

func sprint(fr *frame, args []value, ln bool) value {
	var sb strings.Builder
	prevStr := false
	for k, av := range args {
		a := av.(iface)
		_, isS := a.v.(string)
		if k > 0 && (ln || (!isS && !prevStr)) {
			sb.WriteByte(' ')
		}
		prevStr = isS
		if a.t == nil {
			sb.WriteString("<nil>")
			continue
		}
		sb.WriteString(fmtValue(fr, a.v, a.t, 'v', false, false, 0))
	}
	if ln {
		sb.WriteByte('\n')
	}
	out := sb.String()
	if strings.Contains(out, opaqueMark) {
		return "<text mentioning symbolic values>"
	}
	return out
}

func formatArg(fr *frame, v value) string {
	s, ok := v.(string)
	if !ok {
		unsupported("symbolic format string")
	}
	return s
}

// sprintfV is sprintf for a format that may have symbolic bytes (data used
// as a format string).  Each symbolic byte forks on "is it '%'": where it
// is, the byte is fixed to '%' and formatting proceeds concretely (so the
// verbs the data happens to spell are honoured, as fmt would); where none
// is, and the call has no operands and no concrete verb, the text goes
// through unchanged.  Anything else is refused.
func sprintfV(fr *frame, format value, args []value) value {
	ss, isSym := format.(symstr)
	if !isSym {
		return sprintf(fr, formatArg(fr, format), args)
	}
	b := append([]value(nil), ss.b...)
	concretePercent := false
	symLeft := false
	for k, x := range b {
		if tm, isT := x.(*Term); isT {
			if fr.i.branch(mk("=", boolSort, tm, mkBV(8, '%')), token.NoPos) {
				b[k] = uint8('%')
				concretePercent = true
			} else {
				symLeft = true
			}
		} else if x == uint8('%') {
			concretePercent = true
		}
	}
	if !symLeft {
		return sprintf(fr, fr.i.concreteString(mkStr(b)), args)
	}
	if !concretePercent && len(args) == 0 {
		return mkStr(b)
	}
	unsupported("format string with symbolic bytes next to verbs or operands")
	return nil
}

func (i *interpreter) output(fr *frame, s value) {
	if i.path != nil {
		if cs, ok := s.(string); ok {
			i.path.effects = append(i.path.effects, "print:"+cs)
		}
	}
	if !i.quiet {
		if cs, ok := s.(string); ok {
			fmt.Print(cs)
		}
	}
}

func init() {
	externals["fmt.Sprintf"] = func(fr *frame, args []value) value {
		return sprintfV(fr, args[0], args[1].([]value))
	}
	externals["fmt.Errorf"] = func(fr *frame, args []value) value {
		s := sprintf(fr, formatArg(fr, args[0]), args[1].([]value))
		return fr.i.newError(s)
	}
	externals["fmt.Sprint"] = func(fr *frame, args []value) value { return sprint(fr, args[0].([]value), false) }
	externals["fmt.Sprintln"] = func(fr *frame, args []value) value { return sprint(fr, args[0].([]value), true) }
	externals["fmt.Printf"] = func(fr *frame, args []value) value {
		s := sprintf(fr, formatArg(fr, args[0]), args[1].([]value))
		fr.i.output(fr, s)
		return tuple{strLen(s), iface{}}
	}
	externals["fmt.Print"] = func(fr *frame, args []value) value {
		s := sprint(fr, args[0].([]value), false)
		fr.i.output(fr, s)
		return tuple{strLen(s), iface{}}
	}
	externals["fmt.Println"] = func(fr *frame, args []value) value {
		s := sprint(fr, args[0].([]value), true)
		fr.i.output(fr, s)
		return tuple{strLen(s), iface{}}
	}
	externals["fmt.Fprintf"] = func(fr *frame, args []value) value {
		s := sprintfV(fr, args[1], args[2].([]value))
		return fr.i.writeTo(fr, args[0], s)
	}
	externals["fmt.Fprint"] = func(fr *frame, args []value) value {
		return fr.i.writeTo(fr, args[0], sprint(fr, args[1].([]value), false))
	}
	externals["fmt.Fprintln"] = func(fr *frame, args []value) value {
		return fr.i.writeTo(fr, args[0], sprint(fr, args[1].([]value), true))
	}
}

// writeTo calls w.Write(bytes) on an interpreted io.Writer.
func (i *interpreter) writeTo(fr *frame, w value, s value) value {
	wi := w.(iface)
	if wi.t == nil {
		panic(i.runtimeError("invalid memory address or nil pointer dereference (nil io.Writer)"))
	}
	ms := i.prog.MethodSets.MethodSet(wi.t)
	for k := 0; k < ms.Len(); k++ {
		if ms.At(k).Obj().Name() == "Write" {
			m := i.prog.MethodValue(ms.At(k))
			return call(i, fr, token.NoPos, m, []value{wi.v, strBytes(s)})
		}
	}
	unsupported("Fprintf to %v without Write method", wi.t)
	return nil
}

// newError builds an error value: *errors.errorString from the real package.
func (i *interpreter) newError(msg value) value {
	ep := i.prog.ImportedPackage("errors")
	if ep == nil {
		return iface{t: errorType, v: msg}
	}
	named := ep.Type("errorString").Object().Type()
	var cell value = structure{msg}
	return iface{t: types.NewPointer(named), v: &cell}
}
