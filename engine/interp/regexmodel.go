package interp

// Model of package regexp.  Compilation and concrete matching use the
// host engine; matching a string with symbolic bytes is encoded as an NFA
// simulation over rune terms (thread-activity conditions per position).

import (
	"fmt"
	"go/token"
	"go/types"
	"regexp"
	"regexp/syntax"
	"unicode"
)

type regexModel struct {
	pattern string
	re      *regexp.Regexp
	prog    *syntax.Prog
	// eps[pc] = epsilon-closure targets of pc: list of (consuming-or-match pc, flags required)
	eps map[int][]epsTarget
}

type epsTarget struct {
	pc    int
	flags syntax.EmptyOp
}

func (i *interpreter) regexFor(pattern string) *regexModel {
	if m, ok := i.regexCache[pattern]; ok {
		return m
	}
	m := &regexModel{pattern: pattern}
	re, err := regexp.Compile(pattern)
	if err != nil {
		i.regexCache[pattern] = nil
		return nil
	}
	m.re = re
	rx, err := syntax.Parse(pattern, syntax.Perl)
	if err == nil {
		if p, err := syntax.Compile(rx.Simplify()); err == nil {
			m.prog = p
			m.eps = map[int][]epsTarget{}
		}
	}
	i.regexCache[pattern] = m
	return m
}

func (m *regexModel) closure(pc int) []epsTarget {
	if t, ok := m.eps[pc]; ok {
		return t
	}
	var out []epsTarget
	seen := map[[2]int]bool{}
	var rec func(pc int, flags syntax.EmptyOp)
	rec = func(pc int, flags syntax.EmptyOp) {
		k := [2]int{pc, int(flags)}
		if seen[k] {
			return
		}
		seen[k] = true
		in := &m.prog.Inst[pc]
		switch in.Op {
		case syntax.InstAlt, syntax.InstAltMatch:
			rec(int(in.Out), flags)
			rec(int(in.Arg), flags)
		case syntax.InstCapture, syntax.InstNop:
			rec(int(in.Out), flags)
		case syntax.InstEmptyWidth:
			rec(int(in.Out), flags|syntax.EmptyOp(in.Arg))
		case syntax.InstFail:
		default: // rune instructions and InstMatch
			out = append(out, epsTarget{pc, flags})
		}
	}
	rec(pc, 0)
	m.eps[pc] = out
	return out
}

// runeMatch returns the condition under which inst accepts rune r.
func runeMatch(in *syntax.Inst, r value) *Term {
	rt := toTerm(r)
	w := rt.sort.w
	c := func(x rune) *Term { return mkBV(w, uint64(uint32(x))) }
	switch in.Op {
	case syntax.InstRuneAny:
		return termTrue
	case syntax.InstRuneAnyNotNL:
		return tNot(tEq(rt, c('\n')))
	}
	runes := in.Rune
	fold := syntax.Flags(in.Arg)&syntax.FoldCase != 0
	if len(runes) == 1 {
		r0 := runes[0]
		cond := tEq(rt, c(r0))
		if fold {
			for r1 := unicode.SimpleFold(r0); r1 != r0; r1 = unicode.SimpleFold(r1) {
				cond = tOr(cond, tEq(rt, c(r1)))
			}
		}
		return cond
	}
	cond := termFalse
	for k := 0; k+1 < len(runes); k += 2 {
		lo, hi := runes[k], runes[k+1]
		var rc *Term
		if lo == hi {
			rc = tEq(rt, c(lo))
		} else {
			rc = tAnd(mk("bvsge", boolSort, rt, c(lo)), mk("bvsle", boolSort, rt, c(hi)))
		}
		cond = tOr(cond, rc)
	}
	return cond
}

// matchSym returns the Bool term "pattern matches the rune sequence".
func (m *regexModel) matchSym(runes []value) *Term {
	n := len(runes)
	isNL := func(k int) *Term { return tEq(toTerm(runes[k]), mkBV(toTerm(runes[k]).sort.w, '\n')) }
	isWord := func(k int) *Term {
		rt := toTerm(runes[k])
		w := rt.sort.w
		rng := func(lo, hi rune) *Term {
			return tAnd(mk("bvsge", boolSort, rt, mkBV(w, uint64(lo))), mk("bvsle", boolSort, rt, mkBV(w, uint64(hi))))
		}
		return tOr(tOr(rng('a', 'z'), rng('A', 'Z')), tOr(rng('0', '9'), tEq(rt, mkBV(w, '_'))))
	}
	flagCond := func(pos int, flags syntax.EmptyOp) *Term {
		cond := termTrue
		if flags&syntax.EmptyBeginText != 0 && pos != 0 {
			return termFalse
		}
		if flags&syntax.EmptyEndText != 0 && pos != n {
			return termFalse
		}
		if flags&syntax.EmptyBeginLine != 0 && pos != 0 {
			cond = tAnd(cond, isNL(pos-1))
		}
		if flags&syntax.EmptyEndLine != 0 && pos != n {
			cond = tAnd(cond, isNL(pos))
		}
		if flags&(syntax.EmptyWordBoundary|syntax.EmptyNoWordBoundary) != 0 {
			before, after := termFalse, termFalse
			if pos > 0 {
				before = isWord(pos - 1)
			}
			if pos < n {
				after = isWord(pos)
			}
			boundary := tNot(tEq(before, after))
			if flags&syntax.EmptyWordBoundary != 0 {
				cond = tAnd(cond, boundary)
			}
			if flags&syntax.EmptyNoWordBoundary != 0 {
				cond = tAnd(cond, tNot(boundary))
			}
		}
		return cond
	}
	matched := termFalse
	active := map[int]*Term{}
	add := func(dst map[int]*Term, pos int, from int, cond *Term) {
		for _, t := range m.closure(from) {
			c := tAnd(cond, flagCond(pos, t.flags))
			if c.isConst() && c.val == 0 {
				continue
			}
			if m.prog.Inst[t.pc].Op == syntax.InstMatch {
				matched = tOr(matched, c)
				continue
			}
			if old, ok := dst[t.pc]; ok {
				dst[t.pc] = tOr(old, c)
			} else {
				dst[t.pc] = c
			}
		}
	}
	for pos := 0; pos <= n; pos++ {
		// unanchored search: a new thread may start at every position
		add(active, pos, m.prog.Start, termTrue)
		if pos == n {
			break
		}
		next := map[int]*Term{}
		// deterministic order
		pcs := make([]int, 0, len(active))
		for pc := range active {
			pcs = append(pcs, pc)
		}
		sortInts(pcs)
		for _, pc := range pcs {
			in := &m.prog.Inst[pc]
			c := tAnd(active[pc], runeMatch(in, runes[pos]))
			if c.isConst() && c.val == 0 {
				continue
			}
			add(next, pos+1, int(in.Out), c)
		}
		active = next
	}
	return matched
}

func sortInts(a []int) {
	for i := 1; i < len(a); i++ {
		for j := i; j > 0 && a[j-1] > a[j]; j-- {
			a[j-1], a[j] = a[j], a[j-1]
		}
	}
}

// decodeAll decodes a (possibly symbolic) string into runes.
func (i *interpreter) decodeAll(fr *frame, s value) []value {
	var out []value
	for strLen(s) > 0 {
		r, n := i.decodeRune(fr, s)
		out = append(out, r)
		s = strSlice(s, n, strLen(s))
	}
	return out
}

func regexOf(fr *frame, recv value) *regexModel {
	p, _ := recv.(*value)
	if p == nil {
		panic(fr.i.runtimeError("invalid memory address or nil pointer dereference (nil *Regexp)"))
	}
	st := (*p).(structure)
	pat, ok := st[0].(string)
	if !ok {
		unsupported("regexp with symbolic pattern")
	}
	m := fr.i.regexFor(pat)
	if m == nil {
		unsupported("regexp: bad pattern %q", pat)
	}
	return m
}

func init() {
	ext := externals
	compile := func(must bool) externalFn {
		return func(fr *frame, args []value) value {
			pat, ok := args[0].(string)
			if !ok {
				unsupported("regexp.Compile of symbolic pattern")
			}
			m := fr.i.regexFor(pat)
			rt := fr.i.prog.ImportedPackage("regexp").Type("Regexp").Object().Type()
			if m == nil {
				_, err := regexp.Compile(pat)
				if must {
					panic(targetPanic{iface{types.Typ[types.String], "regexp: Compile(" + pat + "): " + err.Error()}})
				}
				return tuple{zero(types.NewPointer(rt)), fr.i.newError(err.Error())}
			}
			var cell value = zero(rt)
			cell.(structure)[0] = pat
			if must {
				return &cell
			}
			return tuple{&cell, iface{}}
		}
	}
	ext["regexp.MustCompile"] = compile(true)
	ext["regexp.Compile"] = compile(false)
	ext["(*regexp.Regexp).String"] = func(fr *frame, args []value) value { return regexOf(fr, args[0]).pattern }
	ext["(*regexp.Regexp).MatchString"] = func(fr *frame, args []value) value {
		m := regexOf(fr, args[0])
		if s, ok := args[1].(string); ok {
			return m.re.MatchString(s)
		}
		if m.prog == nil {
			unsupported("regexp %q: no NFA for symbolic match", m.pattern)
		}
		runes := fr.i.decodeAll(fr, args[1])
		r := m.matchSym(runes)
		if r.isConst() {
			return r.val == 1
		}
		return r
	}
	ext["(*regexp.Regexp).Match"] = func(fr *frame, args []value) value {
		s := mkStr(append([]value(nil), args[1].([]value)...))
		return ext["(*regexp.Regexp).MatchString"](fr, []value{args[0], s})
	}
	ext["regexp.MatchString"] = func(fr *frame, args []value) value {
		pat, ok := args[0].(string)
		s, ok2 := args[1].(string)
		if !ok || !ok2 {
			unsupported("regexp.MatchString symbolic")
		}
		b, err := regexp.MatchString(pat, s)
		if err != nil {
			return tuple{b, fr.i.newError(err.Error())}
		}
		return tuple{b, iface{}}
	}
	concreteStr := func(fr *frame, v value, what string) string {
		return fr.i.concreteString(v)
	}
	strs := func(ss []string) value {
		if ss == nil {
			return []value(nil)
		}
		out := make([]value, len(ss))
		for k, s := range ss {
			out[k] = s
		}
		return out
	}
	ext["(*regexp.Regexp).FindAllString"] = func(fr *frame, args []value) value {
		m := regexOf(fr, args[0])
		return strs(m.re.FindAllString(concreteStr(fr, args[1], "FindAllString"), args[2].(int)))
	}
	ext["(*regexp.Regexp).FindString"] = func(fr *frame, args []value) value {
		m := regexOf(fr, args[0])
		return m.re.FindString(concreteStr(fr, args[1], "FindString"))
	}
	ext["(*regexp.Regexp).FindStringSubmatch"] = func(fr *frame, args []value) value {
		m := regexOf(fr, args[0])
		return strs(m.re.FindStringSubmatch(concreteStr(fr, args[1], "FindStringSubmatch")))
	}
	ext["(*regexp.Regexp).FindStringIndex"] = func(fr *frame, args []value) value {
		m := regexOf(fr, args[0])
		loc := m.re.FindStringIndex(concreteStr(fr, args[1], "FindStringIndex"))
		if loc == nil {
			return []value(nil)
		}
		return []value{loc[0], loc[1]}
	}
	ext["(*regexp.Regexp).FindAllStringIndex"] = func(fr *frame, args []value) value {
		m := regexOf(fr, args[0])
		locs := m.re.FindAllStringIndex(concreteStr(fr, args[1], "FindAllStringIndex"), args[2].(int))
		if locs == nil {
			return []value(nil)
		}
		out := make([]value, len(locs))
		for k, l := range locs {
			out[k] = []value{l[0], l[1]}
		}
		return out
	}
	ext["(*regexp.Regexp).ReplaceAllString"] = func(fr *frame, args []value) value {
		m := regexOf(fr, args[0])
		return m.re.ReplaceAllString(concreteStr(fr, args[1], "ReplaceAllString"), concreteStr(fr, args[2], "ReplaceAllString"))
	}
	ext["(*regexp.Regexp).Split"] = func(fr *frame, args []value) value {
		m := regexOf(fr, args[0])
		return strs(m.re.Split(concreteStr(fr, args[1], "Split"), args[2].(int)))
	}
	ext["regexp.QuoteMeta"] = func(fr *frame, args []value) value {
		return regexp.QuoteMeta(concreteStr(fr, args[0], "QuoteMeta"))
	}
}

var _ = fmt.Sprint
var _ = token.NoPos
