package interp

// Models of the environment: OS boundary (effect markers), coroutines
// (iter.Pull), regexp, time, sync, runtime, strconv floats, math.

import (
	"fmt"
	"go/token"
	"go/types"
	"math"
	"strconv"
	"strings"
	"unsafe"

	"golang.org/x/tools/go/ssa"
)

// packages whose every function is an effect marker (never executed)
var effectPkgs = map[string]bool{
	"os": true, "os/exec": true, "syscall": true, "io/ioutil": true, "net": true, "os/signal": true, "os/user": true,
	"net/http": true, "path/filepath": false,
}

// zeroResults returns the zero results of sig, with any trailing error
// result set to a non-nil error (stubs must not report success).
func (i *interpreter) failResults(sig *types.Signature, what string) value {
	res := sig.Results()
	if res.Len() == 0 {
		return nil
	}
	vals := make(tuple, res.Len())
	for k := 0; k < res.Len(); k++ {
		t := res.At(k).Type()
		vals[k] = zero(t)
		if types.Identical(t, types.Universe.Lookup("error").Type()) {
			vals[k] = i.newError("verif: blocked effect " + what)
		}
	}
	if len(vals) == 1 {
		return vals[0]
	}
	return vals
}

func effectStub(fn *ssa.Function) externalFn {
	name := fn.String()
	return func(fr *frame, args []value) value {
		desc := name + "("
		for k, a := range args {
			if k > 0 {
				desc += ","
			}
			switch a := a.(type) {
			case string:
				desc += strconv.Quote(a)
			case symstr:
				desc += "<symstr>"
			case int:
				desc += fmt.Sprint(a)
			default:
				desc += "_"
			}
		}
		desc += ")"
		fr.i.effects = append(fr.i.effects, desc)
		return fr.i.failResults(fn.Signature, name)
	}
}

// ---- coroutines (iter.Pull) ----

type coroutine struct {
	i       *interpreter
	resume  chan bool // true = continue, false = kill
	yield   chan coMsg
	done    bool
	started bool
	stopped bool
	seq     value
	fr      *frame
}

type coMsg struct {
	v     value
	ok    bool
	panic any
}

type coKill struct{}

func (i *interpreter) killCoroutines() {
	for _, c := range i.coros {
		if c.started && !c.done {
			c.resume <- false
			<-c.yield
		}
	}
	i.coros = nil
}

func (c *coroutine) run() {
	defer func() {
		p := recover()
		c.done = true
		if _, ok := p.(coKill); ok {
			p = nil
		}
		c.yield <- coMsg{ok: false, panic: p}
	}()
	i := c.i
	// yield func(V) bool : a host-implemented function value
	yieldFn := &hostFunc{fn: func(fr *frame, args []value) value {
		if c.stopped {
			return false // as iter.Pull's yield does once stopped
		}
		c.yield <- coMsg{v: args[0], ok: true}
		if !<-c.resume {
			c.stopped = true
			return false
		}
		return true
	}}
	call(i, c.fr, token.NoPos, c.seq, []value{yieldFn})
}

// hostFunc is a function value implemented by the engine.
type hostFunc struct {
	fn externalFn
}

func iterPull(fr *frame, args []value, elemT types.Type) value {
	i := fr.i
	c := &coroutine{i: i, resume: make(chan bool), yield: make(chan coMsg), seq: args[0], fr: nil}
	i.coros = append(i.coros, c)
	next := &hostFunc{fn: func(fr2 *frame, _ []value) value {
		if c.done {
			return tuple{zero(elemT), false}
		}
		if !c.started {
			c.started = true
			go c.run()
		} else {
			c.resume <- true
		}
		m := <-c.yield
		if m.panic != nil {
			panic(m.panic)
		}
		if !m.ok {
			return tuple{zero(elemT), false}
		}
		return tuple{m.v, true}
	}}
	stop := &hostFunc{fn: func(fr2 *frame, _ []value) value {
		if c.started && !c.done {
			c.resume <- false
			m := <-c.yield
			if m.panic != nil {
				panic(m.panic)
			}
		}
		c.done = true
		return nil
	}}
	return tuple{next, stop}
}

// ---- unsafe builtins ----

func unsafeBuiltin(fr *frame, name string, args []value) (value, bool) {
	switch name {
	case "SliceData":
		s := args[0].([]value)
		if cap(s) == 0 {
			return (*value)(nil), true
		}
		return &s[:1][0], true
	case "String":
		p, _ := args[0].(*value)
		n := int(asInt64(args[1]))
		if n == 0 || p == nil {
			return "", true
		}
		return mkStr(append([]value(nil), unsafe.Slice(p, n)...)), true
	case "StringData":
		b := strBytes(args[0])
		if len(b) == 0 {
			return (*value)(nil), true
		}
		return &b[0], true
	case "Slice":
		p, _ := args[0].(*value)
		n := int(asInt64(args[1]))
		if p == nil {
			return []value(nil), true
		}
		return unsafe.Slice(p, n), true
	}
	return nil, false
}

// ---- the codec boundary (github.com/ugorji/go/codec): reflection/unsafe
// code that cannot be interpreted.  The four entry points zygo uses dispatch
// to the harness functions vCodecDecode / vCodecEncode (package under test),
// which model the handles' documented behaviour on plain data. ----

type codecState struct {
	data   value // []byte to decode
	w      value // io.Writer to encode into
	isJSON bool
}

func (i *interpreter) harnessFunc(name string) *ssa.Function {
	for _, pkg := range i.prog.AllPackages() {
		if f := pkg.Func(name); f != nil && strings.HasSuffix(pkg.Pkg.Path(), "/zygo") {
			return f
		}
	}
	unsupported("codec model: harness function %s not found", name)
	return nil
}

func init() {
	ext := externals
	isJSONHandle := func(h value) bool {
		itf, ok := h.(iface)
		return ok && itf.t != nil && strings.Contains(itf.t.String(), "JsonHandle")
	}
	ext["github.com/ugorji/go/codec.NewDecoderBytes"] = func(fr *frame, args []value) value {
		var cell value = structure{}
		p := &cell
		if fr.i.codecs == nil {
			fr.i.codecs = map[*value]*codecState{}
		}
		fr.i.codecs[p] = &codecState{data: args[0], isJSON: isJSONHandle(args[1])}
		return p
	}
	ext["github.com/ugorji/go/codec.NewEncoder"] = func(fr *frame, args []value) value {
		var cell value = structure{}
		p := &cell
		if fr.i.codecs == nil {
			fr.i.codecs = map[*value]*codecState{}
		}
		fr.i.codecs[p] = &codecState{w: args[0], isJSON: isJSONHandle(args[1])}
		return p
	}
	ext["(*github.com/ugorji/go/codec.Decoder).Decode"] = func(fr *frame, args []value) value {
		st := fr.i.codecs[args[0].(*value)]
		if st == nil {
			unsupported("codec model: Decode on an unknown decoder")
		}
		res := call(fr.i, fr, token.NoPos, fr.i.harnessFunc("vCodecDecode"), []value{st.data, st.isJSON}).(tuple)
		target, ok := args[1].(iface).v.(*value)
		if !ok {
			unsupported("codec model: Decode target is not a pointer")
		}
		fr.i.setCell(target, res[0])
		return res[1]
	}
	ext["(*github.com/ugorji/go/codec.Encoder).Encode"] = func(fr *frame, args []value) value {
		st := fr.i.codecs[args[0].(*value)]
		if st == nil {
			unsupported("codec model: Encode on an unknown encoder")
		}
		v := args[1]
		// zygo passes &iface: encode what it points to
		if itf, ok := v.(iface); ok {
			if p, isPtr := itf.v.(*value); isPtr {
				if inner, isIface := (*p).(iface); isIface {
					v = inner
				}
			}
		}
		res := call(fr.i, fr, token.NoPos, fr.i.harnessFunc("vCodecEncode"), []value{v, st.isJSON}).(tuple)
		if errv, ok := res[1].(iface); ok && errv.t != nil {
			return res[1]
		}
		w := st.w.(iface)
		write := fr.i.prog.LookupMethod(w.t, nil, "Write")
		if write == nil {
			unsupported("codec model: writer without a Write method")
		}
		call(fr.i, fr, token.NoPos, write, []value{w.v, res[0]})
		return res[1]
	}
}

func init() {
	ext := externals
	// iter.Pull instantiations are handled by name prefix in externalFor2.
	ext["runtime.Stack"] = func(fr *frame, args []value) value { return 0 }
	ext["runtime/debug.Stack"] = func(fr *frame, args []value) value { return []value{} }
	ext["runtime/debug.PrintStack"] = func(fr *frame, args []value) value { return nil }
	ext["runtime.Caller"] = func(fr *frame, args []value) value { return tuple{uintptr(0), "", 0, false} }
	ext["encoding/gob.Register"] = func(fr *frame, args []value) value { return nil }
	ext["encoding/gob.RegisterName"] = func(fr *frame, args []value) value { return nil }
	ext["runtime.KeepAlive"] = func(fr *frame, args []value) value { return nil }
	ext["runtime.SetFinalizer"] = func(fr *frame, args []value) value { return nil }
	ext["(*sync.Mutex).Lock"] = func(fr *frame, args []value) value { return nil }
	ext["(*sync.Mutex).Unlock"] = func(fr *frame, args []value) value { return nil }
	ext["(*sync.RWMutex).Lock"] = func(fr *frame, args []value) value { return nil }
	ext["(*sync.RWMutex).Unlock"] = func(fr *frame, args []value) value { return nil }
	ext["(*sync.RWMutex).RLock"] = func(fr *frame, args []value) value { return nil }
	ext["(*sync.RWMutex).RUnlock"] = func(fr *frame, args []value) value { return nil }
	ext["(*sync.Once).Do"] = func(fr *frame, args []value) value {
		// done flag kept in the struct's first field
		p := args[0].(*value)
		st := (*p).(structure)
		if b, ok := st[0].(bool); ok && b {
			return nil
		}
		fr.i.setCell(&st[0], true)
		call(fr.i, fr, token.NoPos, args[1], nil)
		return nil
	}
	ext["(*sync.Pool).Get"] = func(fr *frame, args []value) value {
		p := args[0].(*value)
		st := (*p).(structure)
		newf := st[len(st)-1]
		if f, ok := newf.(*ssa.Function); ok && f == nil {
			return iface{}
		}
		return call(fr.i, fr, token.NoPos, newf, nil)
	}
	ext["(*sync.Pool).Put"] = func(fr *frame, args []value) value { return nil }
	ext["sync/atomic.LoadInt32"] = func(fr *frame, args []value) value { return *(args[0].(*value)) }
	ext["sync/atomic.LoadUint32"] = func(fr *frame, args []value) value { return *(args[0].(*value)) }
	ext["sync/atomic.LoadInt64"] = func(fr *frame, args []value) value { return *(args[0].(*value)) }
	ext["sync/atomic.StoreInt32"] = func(fr *frame, args []value) value { fr.i.setCell(args[0].(*value), args[1]); return nil }
	ext["sync/atomic.StoreUint32"] = func(fr *frame, args []value) value { fr.i.setCell(args[0].(*value), args[1]); return nil }
	ext["sync/atomic.StoreInt64"] = func(fr *frame, args []value) value { fr.i.setCell(args[0].(*value), args[1]); return nil }
	ext["sync/atomic.StorePointer"] = func(fr *frame, args []value) value { fr.i.setCell(args[0].(*value), args[1]); return nil }
	ext["sync/atomic.LoadPointer"] = func(fr *frame, args []value) value { return *(args[0].(*value)) }
	ext["sync/atomic.StoreUint64"] = func(fr *frame, args []value) value { fr.i.setCell(args[0].(*value), args[1]); return nil }
	ext["sync/atomic.LoadUint64"] = func(fr *frame, args []value) value { return *(args[0].(*value)) }
	ext["sync/atomic.AddInt64"] = func(fr *frame, args []value) value {
		p := args[0].(*value)
		nv := binop(fr, token.ADD, types.Typ[types.Int64], *p, args[1], token.NoPos)
		fr.i.setCell(p, nv)
		return nv
	}
	ext["sync/atomic.AddInt32"] = func(fr *frame, args []value) value {
		p := args[0].(*value)
		nv := binop(fr, token.ADD, types.Typ[types.Int32], *p, args[1], token.NoPos)
		fr.i.setCell(p, nv)
		return nv
	}
	ext["sync/atomic.CompareAndSwapInt32"] = func(fr *frame, args []value) value {
		p := args[0].(*value)
		if fr.i.truth(equals(types.Typ[types.Int32], *p, args[1]), token.NoPos) {
			fr.i.setCell(p, args[2])
			return true
		}
		return false
	}

	// time: arbitrary but fixed instants (the properties exclude time)
	ext["time.Now"] = func(fr *frame, args []value) value {
		fr.i.stubsHit["time.Now"]++
		tt := fr.i.prog.ImportedPackage("time").Type("Time").Object().Type()
		return zero(tt)
	}
	ext["time.LoadLocation"] = func(fr *frame, args []value) value {
		lt := fr.i.prog.ImportedPackage("time").Type("Location").Object().Type()
		var cell value = zero(lt)
		if n, ok := args[0].(string); ok {
			cell.(structure)[0] = n
		}
		return tuple{&cell, iface{}}
	}
	ext["4d63.com/tz.LoadLocation"] = ext["time.LoadLocation"]
	ext["time.Sleep"] = func(fr *frame, args []value) value { return nil }
	ext["time.Since"] = func(fr *frame, args []value) value { return int64(0) }

	// math
	ext["math.IsNaN"] = func(fr *frame, args []value) value {
		if t, ok := args[0].(*Term); ok {
			r := mk("fp.isNaN", boolSort, t)
			if r.isConst() {
				return r.val == 1
			}
			return r
		}
		return math.IsNaN(args[0].(float64))
	}
	ext["math.IsInf"] = func(fr *frame, args []value) value {
		if t, ok := args[0].(*Term); ok {
			sign := args[1].(int)
			inf := mk("fp.isInfinite", boolSort, t)
			var r *Term
			switch {
			case sign > 0:
				r = tAnd(inf, mk("fp.gt", boolSort, t, mkFP(0)))
			case sign < 0:
				r = tAnd(inf, mk("fp.lt", boolSort, t, mkFP(0)))
			default:
				r = inf
			}
			return r
		}
		return math.IsInf(args[0].(float64), args[1].(int))
	}
	ext["math.NaN"] = func(fr *frame, args []value) value { return math.NaN() }
	ext["math.Inf"] = func(fr *frame, args []value) value { return math.Inf(args[0].(int)) }
	ext["math.Abs"] = func(fr *frame, args []value) value {
		if t, ok := args[0].(*Term); ok {
			return mk("fp.abs", fp64Sort, t)
		}
		return math.Abs(args[0].(float64))
	}
	f1 := func(name string, f func(float64) float64) {
		ext[name] = func(fr *frame, args []value) value {
			x, ok := args[0].(float64)
			if !ok {
				unsupported("%s on symbolic operand", name)
			}
			return f(x)
		}
	}
	// IEEE operations with an SMT-LIB counterpart are encoded; NaN payloads
	// and the sign of zero follow IEEE 754 (as Go's math package does)
	fpOp := func(name, op string, f func(float64) float64) {
		ext[name] = func(fr *frame, args []value) value {
			if t, ok := args[0].(*Term); ok {
				return mk(op, fp64Sort, t)
			}
			return f(args[0].(float64))
		}
	}
	fpOp("math.Sqrt", "fp.sqrt", math.Sqrt)
	fpOp("math.Floor", "fp.rti_rtn", math.Floor)
	fpOp("math.Ceil", "fp.rti_rtp", math.Ceil)
	fpOp("math.Trunc", "fp.rti_rtz", math.Trunc)
	fpOp("math.Round", "fp.rti_rna", math.Round)
	f1("math.Log", math.Log)
	f1("math.Log2", math.Log2)
	f1("math.Log10", math.Log10)
	f1("math.Exp", math.Exp)
	f1("math.Sin", math.Sin)
	f1("math.Cos", math.Cos)
	f1("math.Tan", math.Tan)
	ext["math.Pow"] = func(fr *frame, args []value) value {
		if isSym(args[0]) || isSym(args[1]) {
			return mk("uf_pow", fp64Sort, toTerm(args[0]), toTerm(args[1]))
		}
		return math.Pow(args[0].(float64), args[1].(float64))
	}
	ext["math.Mod"] = func(fr *frame, args []value) value {
		if isSym(args[0]) || isSym(args[1]) {
			unsupported("math.Mod on symbolic operand")
		}
		return math.Mod(args[0].(float64), args[1].(float64))
	}
	ext["math.Modf"] = func(fr *frame, args []value) value {
		x, ok := args[0].(float64)
		if !ok {
			unsupported("math.Modf on symbolic operand")
		}
		a, b := math.Modf(x)
		return tuple{a, b}
	}
	ext["math.Float64bits"] = func(fr *frame, args []value) value {
		if t, ok := args[0].(*Term); ok {
			if t.op == "bits.fp" {
				return t.args[0]
			}
			unsupported("math.Float64bits on computed symbolic float")
		}
		return math.Float64bits(args[0].(float64))
	}
	ext["math.Float64frombits"] = func(fr *frame, args []value) value {
		if t, ok := args[0].(*Term); ok {
			return mk("bits.fp", fp64Sort, t)
		}
		return math.Float64frombits(args[0].(uint64))
	}
	ext["math.Float32bits"] = func(fr *frame, args []value) value { return math.Float32bits(args[0].(float32)) }
	ext["math.Float32frombits"] = func(fr *frame, args []value) value { return math.Float32frombits(args[0].(uint32)) }

	// strconv floats: concrete only
	ext["strconv.ParseFloat"] = func(fr *frame, args []value) value {
		s := fr.i.concreteString(args[0])
		f, err := strconv.ParseFloat(s, args[1].(int))
		if err != nil {
			return tuple{f, fr.i.newError(err.Error())}
		}
		return tuple{f, iface{}}
	}
	ext["strconv.FormatFloat"] = func(fr *frame, args []value) value {
		f, ok := args[0].(float64)
		if !ok {
			unsupported("strconv.FormatFloat on symbolic float")
		}
		return strconv.FormatFloat(f, args[1].(byte), args[2].(int), args[3].(int))
	}
	ext["strconv.AppendFloat"] = func(fr *frame, args []value) value {
		f, ok := args[1].(float64)
		if !ok {
			unsupported("strconv.AppendFloat on symbolic float")
		}
		s := strconv.FormatFloat(f, args[2].(byte), args[3].(int), args[4].(int))
		return append(args[0].([]value), strBytes(s)...)
	}

	// internal/bytealg and friends (assembly in the real build)
	ext["internal/bytealg.IndexByteString"] = func(fr *frame, args []value) value {
		return indexByte(fr, strBytes(args[0]), args[1])
	}
	ext["internal/bytealg.IndexByte"] = func(fr *frame, args []value) value {
		return indexByte(fr, args[0].([]value), args[1])
	}
	ext["internal/bytealg.CountString"] = func(fr *frame, args []value) value {
		return countByte(fr, strBytes(args[0]), args[1])
	}
	ext["internal/bytealg.Count"] = func(fr *frame, args []value) value {
		return countByte(fr, args[0].([]value), args[1])
	}
	ext["internal/bytealg.Equal"] = func(fr *frame, args []value) value {
		return fr.i.truth(strEq(mkStr(append([]value(nil), args[0].([]value)...)), mkStr(append([]value(nil), args[1].([]value)...))), token.NoPos)
	}
	ext["bytes.Equal"] = ext["internal/bytealg.Equal"]
	ext["internal/bytealg.Compare"] = func(fr *frame, args []value) value {
		a := mkStr(append([]value(nil), args[0].([]value)...))
		b := mkStr(append([]value(nil), args[1].([]value)...))
		return compare3(fr, a, b)
	}
	ext["bytes.Compare"] = ext["internal/bytealg.Compare"]
	ext["internal/bytealg.CompareString"] = func(fr *frame, args []value) value { return compare3(fr, args[0], args[1]) }
	ext["strings.Compare"] = ext["internal/bytealg.CompareString"]
	ext["internal/bytealg.IndexString"] = func(fr *frame, args []value) value { return indexString(fr, args[0], args[1]) }
	ext["internal/bytealg.Index"] = func(fr *frame, args []value) value {
		return indexString(fr, mkStr(append([]value(nil), args[0].([]value)...)), mkStr(append([]value(nil), args[1].([]value)...)))
	}
	ext["strings.Index"] = func(fr *frame, args []value) value { return indexString(fr, args[0], args[1]) }
	ext["internal/bytealg.MakeNoZero"] = func(fr *frame, args []value) value {
		n := args[0].(int)
		s := make([]value, n)
		for k := range s {
			s[k] = uint8(0)
		}
		return s
	}
	ext["internal/stringslite.Clone"] = func(fr *frame, args []value) value { return args[0] }
	ext["strings.Clone"] = func(fr *frame, args []value) value { return args[0] }
	ext["internal/abi.NoEscape"] = func(fr *frame, args []value) value { return args[0] }
	ext["internal/abi.Escape"] = func(fr *frame, args []value) value { return args[0] }
	ext["(*strings.Builder).copyCheck"] = func(fr *frame, args []value) value { return nil }
	ext["internal/race.Enabled"] = nil
	delete(ext, "internal/race.Enabled")
	ext["os.Exit"] = func(fr *frame, args []value) value {
		fr.i.effects = append(fr.i.effects, fmt.Sprintf("os.Exit(%v)", args[0]))
		panic(exitPanic(asInt64(args[0])))
	}
	ext["os.Getenv"] = func(fr *frame, args []value) value {
		fr.i.effects = append(fr.i.effects, fmt.Sprintf("os.Getenv(%v)", args[0]))
		return ""
	}
}

func indexByte(fr *frame, bs []value, c value) value {
	for k, b := range bs {
		if fr.i.truth(equals(types.Typ[types.Uint8], b, c), token.NoPos) {
			return k
		}
	}
	return -1
}

func countByte(fr *frame, bs []value, c value) value {
	n := 0
	for _, b := range bs {
		if fr.i.truth(equals(types.Typ[types.Uint8], b, c), token.NoPos) {
			n++
		}
	}
	return n
}

func compare3(fr *frame, a, b value) value {
	if fr.i.truth(strEq(a, b), token.NoPos) {
		return 0
	}
	if fr.i.truth(strLess(a, b), token.NoPos) {
		return -1
	}
	return 1
}

func indexString(fr *frame, s, sub value) value {
	n, m := strLen(s), strLen(sub)
	for k := 0; k+m <= n; k++ {
		if fr.i.truth(strEq(strSlice(s, k, k+m), sub), token.NoPos) {
			return k
		}
	}
	return -1
}

// opaqueFormat: with vFormatOpaque(true), decimal formatting of a symbolic
// number yields a placeholder instead of forking on the digit count.
func opaqueFormat(fn *ssa.Function, args []value) (value, bool) {
	switch fn.Name() {
	case "Itoa", "FormatInt", "FormatUint":
		if isSym(args[0]) {
			return "<sym-int>", true
		}
	case "AppendInt", "AppendUint":
		if isSym(args[1]) {
			return append(args[0].([]value), strBytes("<sym-int>")...), true
		}
	case "FormatFloat":
		if isSym(args[0]) {
			return "<sym-float>", true
		}
	case "AppendFloat":
		if isSym(args[1]) {
			return append(args[0].([]value), strBytes("<sym-float>")...), true
		}
	case "QuoteRune", "QuoteRuneToASCII":
		if isSym(args[0]) {
			return "'<sym-rune>'", true
		}
	}
	return nil, false
}

// symDecimal models base-10 formatting of a symbolic integer: the digit
// count is decided by forks (n < 10, n < 100, ...), each digit is
// '0' + (n / 10^j) % 10 computed at the narrowest width that holds n.
// (Differentially validated against strconv by the conformance vectors.)
func (i *interpreter) symDecimal(fr *frame, fn *ssa.Function, args []value) (value, bool) {
	var n *Term
	signed := false
	appendTo := []value(nil)
	isAppend := false
	switch fn.Name() {
	case "Itoa":
		t, ok := args[0].(*Term)
		if !ok {
			return nil, false
		}
		n, signed = t, true
	case "FormatInt", "FormatUint":
		t, ok := args[0].(*Term)
		if !ok {
			return nil, false
		}
		if b, ok := args[1].(int); !ok || b != 10 {
			return nil, false
		}
		n, signed = t, fn.Name() == "FormatInt"
	case "AppendInt", "AppendUint":
		t, ok := args[1].(*Term)
		if !ok {
			return nil, false
		}
		if b, ok := args[2].(int); !ok || b != 10 {
			return nil, false
		}
		n, signed = t, fn.Name() == "AppendInt"
		appendTo, isAppend = args[0].([]value), true
	default:
		return nil, false
	}
	var out []value
	if signed {
		if i.branch(mk("bvslt", boolSort, n, mkBV(64, 0)), token.NoPos) {
			out = append(out, uint8('-'))
			n = mk("bvneg", bvSort(64), n)
		}
	}
	// digit count
	d := 20
	pow := uint64(10)
	for k := 1; k < 20; k++ {
		if i.branch(mk("bvult", boolSort, n, mkBV(64, pow)), token.NoPos) {
			d = k
			break
		}
		pow *= 10
	}
	w := 64
	switch {
	case d <= 2:
		w = 8
	case d <= 4:
		w = 16
	case d <= 9:
		w = 32
	}
	nn := n
	if w < 64 {
		nn = mkP("extract", bvSort(w), w-1, 0, n)
	}
	digits := make([]value, d)
	p := uint64(1)
	for j := 0; j < d; j++ {
		q := nn
		if p > 1 {
			q = mk("bvudiv", bvSort(w), nn, mkBV(w, p))
		}
		dig := mk("bvurem", bvSort(w), q, mkBV(w, 10))
		var d8 *Term
		if w == 8 {
			d8 = dig
		} else {
			d8 = mkP("extract", bvSort(8), 7, 0, dig)
		}
		digits[d-1-j] = mk("bvadd", bvSort(8), d8, mkBV(8, '0'))
		p *= 10
	}
	out = append(out, digits...)
	if isAppend {
		return append(appendTo, out...), true
	}
	return mkStr(out), true
}
