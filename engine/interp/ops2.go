package interp

// Symbolic-aware versions of the generic operators.

import (
	"bytes"
	"fmt"
	"go/token"
	"go/types"
	"os"

	"golang.org/x/tools/go/ssa"
)

func mustDeref(t types.Type) types.Type {
	if p, ok := t.Underlying().(*types.Pointer); ok {
		return p.Elem()
	}
	panic(fmt.Sprintf("mustDeref: %v is not a pointer", t))
}

// symptr is the address of base[idx] (then the field path) for a symbolic,
// in-range idx.
type symptr struct {
	base []value
	idx  *Term
	path []int
}

func elemAt(v value, path []int) value {
	for _, f := range path {
		v = v.(structure)[f]
	}
	return v
}

// iteValues builds ite(c, a, b) over scalars / aggregates of scalars.
func iteValues(c *Term, a, b value) value {
	switch av := a.(type) {
	case structure:
		bv := b.(structure)
		out := make(structure, len(av))
		for i := range av {
			out[i] = iteValues(c, av[i], bv[i])
		}
		return out
	case array:
		bv := b.(array)
		out := make(array, len(av))
		for i := range av {
			out[i] = iteValues(c, av[i], bv[i])
		}
		return out
	case bool, int, int8, int16, int32, int64, uint, uint8, uint16, uint32, uint64, uintptr, float64, *Term:
		ta, tb := toTerm(a), toTerm(b)
		if ta.isConst() && tb.isConst() && ta.val == tb.val {
			return a
		}
		return tIte(c, ta, tb)
	}
	unsupported("symbolic-index load of non-scalar element %T", a)
	return nil
}

func sameConcrete(a, b value) bool {
	switch a.(type) {
	case bool, int, int8, int16, int32, int64, uint, uint8, uint16, uint32, uint64, uintptr, float64, string:
		return a == b
	}
	return false
}

// loadPtr implements *p for ordinary and symbolic-index pointers.
func (i *interpreter) loadPtr(fr *frame, T types.Type, p value, pos token.Pos) value {
	switch p := p.(type) {
	case *value:
		if p == nil {
			panic(i.runtimeError("invalid memory address or nil pointer dereference"))
		}
		return load(T, p)
	case symptr:
		n := len(p.base)
		w := p.idx.sort.w
		if !scalarish(elemAt(p.base[0], p.path)) {
			// non-scalar elements (interfaces, pointers, slices): case split
			return load(T, i.concretePtr(p, pos))
		}
		// range-compressed ite chain, from the last element backwards
		res := elemAt(p.base[n-1], p.path)
		last := res
		for k := n - 2; k >= 0; k-- {
			e := elemAt(p.base[k], p.path)
			if sameConcrete(e, last) {
				continue
			}
			res = iteValues(mk("bvule", boolSort, p.idx, mkBV(w, uint64(k))), e, res)
			last = e
		}
		if tm, ok := res.(*Term); ok {
			return lower(tm, T)
		}
		return res
	}
	panic(fmt.Sprintf("loadPtr: unexpected pointer %T", p))
}

// concretePtr turns a pointer value into an ordinary cell address (forking
// on a symbolic index).
func (i *interpreter) concretePtr(p value, pos token.Pos) *value {
	switch p := p.(type) {
	case *value:
		if p == nil {
			panic(i.runtimeError("invalid memory address or nil pointer dereference"))
		}
		return p
	case symptr:
		k, _ := i.concretizeInt(p.idx, false, 0, int64(len(p.base)-1), pos)
		addr := &p.base[k]
		for _, f := range p.path {
			addr = &(*addr).(structure)[f]
		}
		return addr
	}
	panic(fmt.Sprintf("concretePtr: unexpected pointer %T", p))
}

// indexAddr implements &x[idx] for slices and *arrays.
func (i *interpreter) indexAddr(fr *frame, x, idx value, idxType types.Type, pos token.Pos) value {
	var base []value
	switch x := x.(type) {
	case []value:
		base = x
	case *value:
		if x == nil {
			panic(i.runtimeError("invalid memory address or nil pointer dereference"))
		}
		base = (*x).(array)
	case symptr:
		base = (*i.concretePtr(x, pos)).(array)
	default:
		panic(fmt.Sprintf("unexpected x type in IndexAddr: %T", x))
	}
	if tm, ok := idx.(*Term); ok {
		ki, _ := kindOf(idxType)
		n := len(base)
		w := tm.sort.w
		need := true
		if !ki.signed && w < 64 && uint64(n) > mask(w) {
			need = false // index type cannot exceed the length
		}
		if need {
			var inr *Term
			if n == 0 {
				inr = termFalse
			} else if ki.signed {
				inr = tAnd(mk("bvsge", boolSort, tm, mkBV(w, 0)), mk("bvslt", boolSort, tm, mkBV(w, uint64(n))))
			} else {
				inr = mk("bvult", boolSort, tm, mkBV(w, uint64(n)))
			}
			if !i.branch(inr, pos) {
				panic(i.runtimeError(fmt.Sprintf("index out of range [sym] with length %d", n)))
			}
		}
		if n == 1 {
			return &base[0]
		}
		return symptr{base: base, idx: tm}
	}
	k := asInt64(idx)
	if k < 0 || k >= int64(len(base)) {
		panic(i.runtimeError(fmt.Sprintf("index out of range [%d] with length %d", k, len(base))))
	}
	return &base[k]
}

// index implements x[idx] for arrays (values) and strings.
func (i *interpreter) index(fr *frame, x, idx value, idxType types.Type, pos token.Pos) value {
	var base []value
	switch x := x.(type) {
	case array:
		base = x
	case string:
		if _, sym := idx.(*Term); !sym {
			k := asInt64(idx)
			if k < 0 || k >= int64(len(x)) {
				panic(i.runtimeError(fmt.Sprintf("index out of range [%d] with length %d", k, len(x))))
			}
			return x[k]
		}
		base = strBytes(x)
	case symstr:
		base = x.b
	default:
		panic(fmt.Sprintf("unexpected x type in Index: %T", x))
	}
	p := i.indexAddr(fr, base, idx, idxType, pos)
	return i.loadPtr(fr, types.Typ[types.Uint8], p, pos)
}

func (i *interpreter) concInt(v value, lo, hi int64, pos token.Pos, what string) int64 {
	if tm, ok := v.(*Term); ok {
		k, ok := i.concretizeInt(tm, true, lo, hi, pos)
		if !ok {
			panic(i.runtimeError(what + " out of range"))
		}
		return k
	}
	return asInt64(v)
}

// slice returns x[lo:hi:max].  Any of lo, hi and max may be nil.
func (i *interpreter) slice(fr *frame, x, lo, hi, max value, pos token.Pos) value {
	var Len, Cap int
	switch x := x.(type) {
	case string, symstr:
		Len = strLen(x)
		Cap = Len
	case []value:
		Len = len(x)
		Cap = cap(x)
	case *value: // *array
		if x == nil {
			panic(i.runtimeError("invalid memory address or nil pointer dereference"))
		}
		a := (*x).(array)
		Len = len(a)
		Cap = cap(a)
	}

	if isStr(x) && (isSym(lo) || isSym(hi)) && max == nil {
		if v, ok := i.symStrSlice(fr, x, lo, hi, Len, pos); ok {
			return v
		}
	}
	l := int64(0)
	if lo != nil {
		l = i.concInt(lo, 0, int64(Cap), pos, "slice bounds")
	}
	h := int64(Len)
	if hi != nil {
		h = i.concInt(hi, 0, int64(Cap), pos, "slice bounds")
	}
	m := int64(Cap)
	if max != nil {
		m = i.concInt(max, 0, int64(Cap), pos, "slice bounds")
	}
	if l < 0 || h < l || m < h || m > int64(Cap) {
		panic(i.runtimeError(fmt.Sprintf("slice bounds out of range [%d:%d:%d] with capacity %d", l, h, m, Cap)))
	}
	switch x := x.(type) {
	case string, symstr:
		if h > int64(Len) {
			panic(i.runtimeError(fmt.Sprintf("slice bounds out of range [:%d] with length %d", h, Len)))
		}
		return strSlice(x, int(l), int(h))
	case []value:
		return x[l:h:m]
	case *value: // *array
		a := (*x).(array)
		return []value(a)[l:h:m]
	}
	panic(fmt.Sprintf("slice: unexpected X type: %T", x))
}

// lookup returns x[idx] where x is a map.
func lookup(fr *frame, instr *ssa.Lookup, x, idx value) value {
	switch x := x.(type) {
	case *omap:
		v, ok := x.lookup(fr, idx)
		if !ok {
			v = zero(instr.X.Type().Underlying().(*types.Map).Elem())
		}
		if instr.CommaOk {
			v = tuple{v, ok}
		}
		return v
	}
	panic(fmt.Sprintf("unexpected x type in Lookup: %T", x))
}

// binop implements all arithmetic and logical binary operators.
func binop(fr *frame, op token.Token, t types.Type, x, y value, pos token.Pos) value {
	if isStr(x) && isStr(y) {
		switch op {
		case token.ADD:
			return strConcat(x, y)
		case token.EQL, token.NEQ, token.LSS, token.LEQ, token.GTR, token.GEQ:
			return strCompareOp(op, x, y)
		}
	}
	if isSym(x) || isSym(y) {
		if op == token.EQL || op == token.NEQ {
			if _, ok := kindOf(t); !ok {
				r := eqnil(t, x, y)
				if op == token.NEQ {
					return vNot(r)
				}
				return r
			}
		}
		return symBinop(fr, op, t, x, y, pos)
	}
	if op == token.QUO || op == token.REM {
		switch y.(type) {
		case int, int8, int16, int32, int64:
			if asInt64(y) == 0 {
				panic(fr.i.runtimeError("integer divide by zero"))
			}
		case uint, uint8, uint16, uint32, uint64, uintptr:
			if asUint64(y) == 0 {
				panic(fr.i.runtimeError("integer divide by zero"))
			}
		}
	}
	if op == token.SHL || op == token.SHR {
		if _, ok := asUnsigned(y); !ok {
			panic(fr.i.runtimeError("negative shift amount"))
		}
	}
	return concreteBinop(op, t, x, y)
}

func unop(fr *frame, instr *ssa.UnOp, x value) value {
	if tm, ok := x.(*Term); ok && instr.Op != token.MUL {
		return symUnop(instr.Op, instr.X.Type(), tm)
	}
	return concreteUnop(fr, instr, x)
}

// conv converts the value x of type t_src to type t_dst.
func conv(fr *frame, t_dst, t_src types.Type, x value) value {
	i := fr.i
	ut_src := t_src.Underlying()
	ut_dst := t_dst.Underlying()
	switch ut_src := ut_src.(type) {
	case *types.Slice:
		// []byte or []rune -> string
		if db, ok := ut_dst.(*types.Basic); ok && db.Info()&types.IsString != 0 {
			switch ut_src.Elem().Underlying().(*types.Basic).Kind() {
			case types.Byte:
				return mkStr(append([]value(nil), x.([]value)...))
			case types.Rune:
				var out []value
				for _, r := range x.([]value) {
					out = append(out, strBytes(i.encodeRune(fr, r))...)
				}
				return mkStr(out)
			}
		}
	case *types.Basic:
		if ut_src.Info()&types.IsString != 0 {
			switch ut_dst := ut_dst.(type) {
			case *types.Slice:
				switch ut_dst.Elem().Underlying().(*types.Basic).Kind() {
				case types.Byte:
					b := strBytes(x)
					if b == nil {
						b = []value{}
					}
					return b
				case types.Rune:
					res := []value{}
					s := x
					for strLen(s) > 0 {
						r, n := i.decodeRune(fr, s)
						res = append(res, r)
						s = strSlice(s, n, strLen(s))
					}
					return res
				}
			case *types.Basic:
				if ut_dst.Info()&types.IsString != 0 {
					return x
				}
			}
		}
		if ut_src.Info()&types.IsInteger != 0 {
			if db, ok := ut_dst.(*types.Basic); ok && db.Info()&types.IsString != 0 {
				if tm, ok := x.(*Term); ok {
					ks, _ := kindOf(t_src)
					if ks.signed && tm.sort.w > 32 {
						// negative => U+FFFD
						if i.branch(mk("bvslt", boolSort, tm, mkBV(tm.sort.w, 0)), token.NoPos) {
							return "�"
						}
					}
					return i.encodeRune(fr, tm)
				}
				n := asInt64(widen(x))
				if _, ok := widen(x).(uint64); ok && uint64(n) > 0x10FFFF {
					return "�"
				}
				if n < 0 || n > 0x10FFFF {
					return "�"
				}
				return string(rune(n))
			}
		}
		if tm, ok := x.(*Term); ok {
			return symConvNumeric(t_dst, t_src, tm)
		}
	}
	return concreteConv(t_dst, t_src, x)
}

// callBuiltin interprets a call to builtin fn with arguments args.
func callBuiltin(caller *frame, fn *ssa.Builtin, args []value, pos token.Pos) value {
	i := caller.i
	switch fn.Name() {
	case "append":
		if len(args) == 1 {
			return args[0]
		}
		arg0 := args[0].([]value)
		var add []value
		if isStr(args[1]) {
			add = strBytes(args[1])
		} else {
			add = args[1].([]value)
		}
		if len(add) == 0 {
			return arg0
		}
		if i.journalOn && len(arg0)+len(add) <= cap(arg0) {
			spare := arg0[len(arg0) : len(arg0)+len(add)]
			for k := range spare {
				i.journal = append(i.journal, undo{addr: &spare[k], old: spare[k]})
			}
		}
		return append(arg0, add...)

	case "copy": // copy([]T, []T) int or copy([]byte, string) int
		var src []value
		if isStr(args[1]) {
			src = strBytes(args[1])
		} else {
			src = args[1].([]value)
		}
		dst := args[0].([]value)
		n := len(dst)
		if len(src) < n {
			n = len(src)
		}
		if i.journalOn {
			for k := 0; k < n; k++ {
				i.journal = append(i.journal, undo{addr: &dst[k], old: dst[k]})
			}
		}
		return copy(dst, src)

	case "close": // close(chan T)
		close(args[0].(chan value))
		return nil

	case "delete": // delete(map[K]value, K)
		switch m := args[0].(type) {
		case *omap:
			m.delete(caller, args[1])
		default:
			panic(fmt.Sprintf("illegal map type: %T", m))
		}
		return nil

	case "clear":
		switch m := args[0].(type) {
		case *omap:
			if m != nil {
				for p := range m.keys {
					if m.live[p] {
						m.delete(caller, m.keys[p])
					}
				}
			}
		case []value:
			unsupported("clear(slice)")
		}
		return nil

	case "print", "println": // print(any, ...)
		ln := fn.Name() == "println"
		var buf bytes.Buffer
		for i, arg := range args {
			if i > 0 && ln {
				buf.WriteRune(' ')
			}
			buf.WriteString(toString(arg))
		}
		if ln {
			buf.WriteRune('\n')
		}
		if !i.quiet {
			os.Stderr.Write(buf.Bytes())
		}
		return nil

	case "len":
		switch x := args[0].(type) {
		case string, symstr:
			return strLen(x)
		case array:
			return len(x)
		case *value:
			return len((*x).(array))
		case []value:
			return len(x)
		case *omap:
			return x.len()
		case chan value:
			return len(x)
		default:
			panic(fmt.Sprintf("len: illegal operand: %T", x))
		}

	case "cap":
		switch x := args[0].(type) {
		case array:
			return cap(x)
		case *value:
			return cap((*x).(array))
		case []value:
			return cap(x)
		case chan value:
			return cap(x)
		default:
			panic(fmt.Sprintf("cap: illegal operand: %T", x))
		}

	case "min", "max":
		for _, a := range args {
			if isSym(a) || isStr(a) {
				t := fn.Type().(*types.Signature).Params().At(0).Type()
				x := args[0]
				for _, y := range args[1:] {
					var c value
					if fn.Name() == "min" {
						c = binop(caller, token.LSS, t, y, x, pos)
					} else {
						c = binop(caller, token.GTR, t, y, x, pos)
					}
					if i.truth(c, pos) {
						x = y
					}
				}
				return x
			}
		}
		if fn.Name() == "min" {
			return foldLeft(min, args)
		}
		return foldLeft(max, args)

	case "real":
		switch c := args[0].(type) {
		case complex64:
			return real(c)
		case complex128:
			return real(c)
		default:
			panic(fmt.Sprintf("real: illegal operand: %T", c))
		}

	case "imag":
		switch c := args[0].(type) {
		case complex64:
			return imag(c)
		case complex128:
			return imag(c)
		default:
			panic(fmt.Sprintf("imag: illegal operand: %T", c))
		}

	case "complex":
		switch f := args[0].(type) {
		case float32:
			return complex(f, args[1].(float32))
		case float64:
			return complex(f, args[1].(float64))
		default:
			panic(fmt.Sprintf("complex: illegal operand: %T", f))
		}

	case "panic":
		panic(targetPanic{args[0]})

	case "recover":
		return doRecover(caller)

	case "ssa:wrapnilchk":
		recv := args[0]
		if recv.(*value) == nil {
			recvType := args[1]
			methodName := args[2]
			panic(i.runtimeError(fmt.Sprintf("value method (%s).%s called using nil *%s pointer",
				recvType, methodName, recvType)))
		}
		return recv

	case "ssa:deferstack":
		return &caller.defers
	}

	if v, ok := unsafeBuiltin(caller, fn.Name(), args); ok {
		return v
	}
	panic("unknown built-in: " + fn.Name())
}

func rangeIter(fr *frame, x value) iter {
	switch x := x.(type) {
	case *omap:
		it := &omapIter{m: x}
		if fr.i.mapOrderMode && x != nil && x.n > 1 {
			it.perm = fr.i.choosePerm(x)
		}
		return it
	case string, symstr:
		return &symStringIter{i: fr.i, fr: fr, s: x}
	}
	panic(fmt.Sprintf("cannot range over %T", x))
}

// choosePerm picks a visiting order of the live entries by case split.
func (i *interpreter) choosePerm(m *omap) []int {
	var live []int
	for p := range m.keys {
		if m.live[p] {
			live = append(live, p)
		}
	}
	if len(live) > i.mapOrderMax {
		// too many entries for all permutations: case-split between the
		// insertion order and its reverse (every pair of entries is visited
		// in both relative orders, which is what an order dependence needs)
		i.permCnt++
		if i.path.choice(fmt.Sprintf("maporder%d.rev", i.permCnt), 2) == 0 {
			return nil
		}
		for a, b := 0, len(live)-1; a < b; a, b = a+1, b-1 {
			live[a], live[b] = live[b], live[a]
		}
		return live
	}
	i.permCnt++
	var perm []int
	for len(live) > 0 {
		k := i.path.choice(fmt.Sprintf("maporder%d.%d", i.permCnt, len(perm)), len(live))
		perm = append(perm, live[k])
		live = append(live[:k:k], live[k+1:]...)
	}
	return perm
}

// symStrSlice handles s[lo:hi] with symbolic bounds whose difference is a
// constant (e.g. strconv's smallsString[i*2:i*2+2]): the result has a
// concrete length and its bytes are symbolic-index loads.
func (i *interpreter) symStrSlice(fr *frame, x, lo, hi value, Len int, pos token.Pos) (value, bool) {
	if i.path == nil || i.path.concreteMode {
		return nil, false
	}
	lt := toTerm64(lo, 0)
	ht := toTerm64(hi, int64(Len))
	diff := mk("bvsub", bvSort(64), ht, lt)
	var d uint64
	if diff.isConst() {
		d = diff.val
	} else {
		mv, ok := i.path.evalModel(diff)
		if !ok {
			return nil, false
		}
		d = mv
		r, _ := i.path.solver.CheckWith(false, nil, tNot(tEq(diff, mkBV(64, d))))
		if r != "unsat" {
			return nil, false
		}
	}
	if int64(d) < 0 || int64(d) > int64(Len) {
		return nil, false
	}
	// bounds: 0 <= lo && hi <= Len (hi-lo = d >= 0 already)
	inb := tAnd(mk("bvsge", boolSort, lt, mkBV(64, 0)), mk("bvsle", boolSort, ht, mkBV(64, uint64(Len))))
	if !i.branch(inb, pos) {
		panic(i.runtimeError("slice bounds out of range"))
	}
	base := strBytes(x)
	out := make([]value, d)
	for k := range out {
		idx := mk("bvadd", bvSort(64), lt, mkBV(64, uint64(k)))
		if idx.isConst() {
			out[k] = base[idx.val]
			continue
		}
		out[k] = i.loadPtr(fr, types.Typ[types.Uint8], symptr{base: base, idx: idx}, pos)
	}
	return mkStr(out), true
}

func toTerm64(v value, dflt int64) *Term {
	if v == nil {
		return mkBV(64, uint64(dflt))
	}
	if t, ok := v.(*Term); ok {
		return t
	}
	return mkBV(64, uint64(asInt64(v)))
}

func scalarish(v value) bool {
	switch v := v.(type) {
	case bool, int, int8, int16, int32, int64, uint, uint8, uint16, uint32, uint64, uintptr, float64, *Term:
		return true
	case structure:
		for _, e := range v {
			if !scalarish(e) {
				return false
			}
		}
		return true
	case array:
		for _, e := range v {
			if !scalarish(e) {
				return false
			}
		}
		return true
	}
	return false
}
