// Package interp is a symbolic fork of golang.org/x/tools/go/ssa/interp
// (v0.50.0, BSD license, Copyright The Go Authors): an interpreter for the
// SSA form of Go programs whose scalar values may be SMT terms.
package interp

import (
	"fmt"
	"sync"
	"strings"
	"go/token"
	"go/types"
	"os"
	"reflect"
	"runtime"
	"slices"
	_ "unsafe"

	"golang.org/x/tools/go/ssa"
)

type continuation int

const (
	kNext continuation = iota
	kReturn
	kJump
)

// Mode is a bitmask of options affecting the interpreter.
type Mode uint

const (
	DisableRecover Mode = 1 << iota // Disable recover() in target programs; show interpreter crash instead.
	EnableTracing                   // Print a trace of all instructions as they are interpreted.
)

type methodSet map[string]*ssa.Function

// State shared between all interpreted goroutines.
type interpreter struct {
	osArgs             []value                // the value of os.Args
	prog               *ssa.Program           // the SSA program
	globals            map[*ssa.Global]*value // addresses of global variables (immutable)
	mode               Mode                   // interpreter options
	reflectPackage     *ssa.Package           // the fake reflect package
	errorMethods       methodSet              // the method set of reflect.error, which implements the error interface.
	rtypeMethods       methodSet              // the method set of rtype, which implements the reflect.Type interface.
	runtimeErrorString types.Type             // the runtime.errorString type (iff "runtime" is present)
	sizes              types.Sizes            // the effective type-sizing function
	goroutines         int32                  // atomically updated

	// symbolic execution state
	path        *pathState
	journal     []undo
	journalOn   bool
	quiet       bool
	formatOpaque bool
	extCache     map[*ssa.Function]extEntry2
	infoCache    map[*ssa.Function]*funcInfo
	setupDone    map[string]bool
	codecs       map[*value]*codecState
	mapOrderMode bool
	mapOrderMax  int
	permCnt      int
	steps       int64
	maxSteps    int64
	utf8DecodeRuneInString *ssa.Function
	utf8AppendRune         *ssa.Function
	coros       []*coroutine
	funcsSeen   map[*ssa.Function]bool
	stubsHit    map[string]int
	initAllowed map[string]bool
	opaque      map[string]bool
	effects     []string
	regexCache  map[string]*regexModel
	cur         *frame // innermost running frame (for diagnostics)
}

type deferred struct {
	fn    value
	args  []value
	instr *ssa.Defer
	tail  *deferred
}

type frame struct {
	i                *interpreter
	caller           *frame
	fn               *ssa.Function
	block, prevBlock *ssa.BasicBlock
	info             *funcInfo
	regs             []value // dynamic values of SSA variables, indexed by info.idx
	locals           []value
	defers           *deferred
	result           value
	panicking        bool
	panic            any
	phitemps         []value // temporaries for parallel phi assignment
	curInstr         ssa.Instruction
}

// targetStack renders the interpreted call stack (diagnostics).
func (i *interpreter) targetStack() string {
	var sb strings.Builder
	n := 0
	for fr := i.cur; fr != nil && n < 40; fr = fr.caller {
		pos := ""
		if fr.curInstr != nil {
			pos = i.prog.Fset.Position(fr.curInstr.Pos()).String()
		}
		fmt.Fprintf(&sb, "    %s %s\n", fr.fn.String(), pos)
		n++
	}
	return sb.String()
}

// funcInfo numbers the SSA values of a function (shared, immutable).
type funcInfo struct {
	idx    map[ssa.Value]int32
	n      int
	consts map[*ssa.Const]value
}

var funcInfos sync.Map // *ssa.Function -> *funcInfo

func (i *interpreter) infoFor(fn *ssa.Function) *funcInfo {
	if fi, ok := i.infoCache[fn]; ok {
		return fi
	}
	if v, ok := funcInfos.Load(fn); ok {
		i.infoCache[fn] = v.(*funcInfo)
		return v.(*funcInfo)
	}
	fi := &funcInfo{idx: map[ssa.Value]int32{}, consts: map[*ssa.Const]value{}}
	add := func(v ssa.Value) {
		if _, ok := fi.idx[v]; !ok {
			fi.idx[v] = int32(fi.n)
			fi.n++
		}
	}
	for _, p := range fn.Params {
		add(p)
	}
	for _, fv := range fn.FreeVars {
		add(fv)
	}
	for _, l := range fn.Locals {
		add(l)
	}
	for _, b := range fn.Blocks {
		for _, ins := range b.Instrs {
			if v, ok := ins.(ssa.Value); ok {
				add(v)
			}
		}
	}
	v, _ := funcInfos.LoadOrStore(fn, fi)
	i.infoCache[fn] = v.(*funcInfo)
	return v.(*funcInfo)
}

func (fr *frame) set(key ssa.Value, v value) {
	fr.regs[fr.info.idx[key]] = v
}

func (fr *frame) get(key ssa.Value) value {
	switch key := key.(type) {
	case nil:
		// Hack; simplifies handling of optional attributes
		// such as ssa.Slice.{Low,High}.
		return nil
	case *ssa.Function, *ssa.Builtin:
		return key
	case *ssa.Const:
		return constValue(key)
	case *ssa.Global:
		if r, ok := fr.i.globals[key]; ok {
			return r
		}
	}
	if ix, ok := fr.info.idx[key]; ok {
		return fr.regs[ix]
	}
	panic(fmt.Sprintf("get: no value for %T: %v", key, key.Name()))
}

// runDefer runs a deferred call d.
// It always returns normally, but may set or clear fr.panic.
func (fr *frame) runDefer(d *deferred) {
	if fr.i.mode&EnableTracing != 0 {
		fmt.Fprintf(os.Stderr, "%s: invoking deferred function call\n",
			fr.i.prog.Fset.Position(d.instr.Pos()))
	}
	var ok bool
	defer func() {
		if !ok {
			// Deferred call created a new state of panic.
			p := recover()
			if isEngineAbort(p) {
				panic(p)
			}
			fr.panicking = true
			fr.panic = p
		}
	}()
	call(fr.i, fr, d.instr.Pos(), d.fn, d.args)
	ok = true
}

// runDefers executes fr's deferred function calls in LIFO order.
//
// On entry, fr.panicking indicates a state of panic; if
// true, fr.panic contains the panic value.
//
// On completion, if a deferred call started a panic, or if no
// deferred call recovered from a previous state of panic, then
// runDefers itself panics after the last deferred call has run.
//
// If there was no initial state of panic, or it was recovered from,
// runDefers returns normally.
func (fr *frame) runDefers() {
	for d := fr.defers; d != nil; d = d.tail {
		fr.runDefer(d)
	}
	fr.defers = nil
	if fr.panicking {
		panic(fr.panic) // new panic, or still panicking
	}
}

// lookupMethod returns the method set for type typ, which may be one
// of the interpreter's fake types.
func lookupMethod(i *interpreter, typ types.Type, meth *types.Func) *ssa.Function {
	switch typ {
	case rtypeType:
		return i.rtypeMethods[meth.Id()]
	case errorType:
		return i.errorMethods[meth.Id()]
	}
	return i.prog.LookupMethod(typ, meth.Pkg(), meth.Name())
}

// visitInstr interprets a single ssa.Instruction within the activation
// record frame.  It returns a continuation value indicating where to
// read the next instruction from.
func visitInstr(fr *frame, instr ssa.Instruction) continuation {
	switch instr := instr.(type) {
	case *ssa.DebugRef:
		// no-op

	case *ssa.UnOp:
		fr.set(instr, unop(fr, instr, fr.get(instr.X)))

	case *ssa.BinOp:
		fr.set(instr, binop(fr, instr.Op, instr.X.Type(), fr.get(instr.X), fr.get(instr.Y), instr.Pos()))

	case *ssa.Call:
		fn, args := prepareCall(fr, &instr.Call)
		fr.set(instr, call(fr.i, fr, instr.Pos(), fn, args))

	case *ssa.ChangeInterface:
		fr.set(instr, fr.get(instr.X))

	case *ssa.ChangeType:
		fr.set(instr, fr.get(instr.X)) // (can't fail)

	case *ssa.Convert:
		fr.set(instr, conv(fr, instr.Type(), instr.X.Type(), fr.get(instr.X)))

	case *ssa.SliceToArrayPointer:
		fr.set(instr, sliceToArrayPointer(instr.Type(), instr.X.Type(), fr.get(instr.X)))

	case *ssa.MakeInterface:
		fr.set(instr, iface{t: instr.X.Type(), v: fr.get(instr.X)})

	case *ssa.Extract:
		fr.set(instr, fr.get(instr.Tuple).(tuple)[instr.Index])

	case *ssa.Slice:
		fr.set(instr, fr.i.slice(fr, fr.get(instr.X), fr.get(instr.Low), fr.get(instr.High), fr.get(instr.Max), instr.Pos()))

	case *ssa.Return:
		switch len(instr.Results) {
		case 0:
		case 1:
			fr.result = fr.get(instr.Results[0])
		default:
			var res []value
			for _, r := range instr.Results {
				res = append(res, fr.get(r))
			}
			fr.result = tuple(res)
		}
		fr.block = nil
		return kReturn

	case *ssa.RunDefers:
		fr.runDefers()

	case *ssa.Panic:
		if debugStacks {
			fmt.Fprintf(os.Stderr, "target panic: %s\n%s", fr.i.panicString(targetPanic{fr.get(instr.X)}), fr.i.targetStack())
		}
		panic(targetPanic{fr.get(instr.X)})

	case *ssa.Send:
		fr.get(instr.Chan).(chan value) <- fr.get(instr.X)

	case *ssa.Store:
		store(fr.i, mustDeref(instr.Addr.Type()), fr.i.concretePtr(fr.get(instr.Addr), instr.Pos()), fr.get(instr.Val))

	case *ssa.If:
		succ := 1
		if fr.i.truth(fr.get(instr.Cond), instr.Cond.Pos()) {
			succ = 0
		}
		fr.prevBlock, fr.block = fr.block, fr.block.Succs[succ]
		return kJump

	case *ssa.Jump:
		fr.prevBlock, fr.block = fr.block, fr.block.Succs[0]
		return kJump

	case *ssa.Defer:
		fn, args := prepareCall(fr, &instr.Call)
		defers := &fr.defers
		if into := fr.get(instr.DeferStack); into != nil {
			defers = into.(**deferred)
		}
		*defers = &deferred{
			fn:    fn,
			args:  args,
			instr: instr,
			tail:  *defers,
		}

	case *ssa.Go:
		unsupported("go statement at %s", fr.i.prog.Fset.Position(instr.Pos()))

	case *ssa.MakeChan:
		fr.set(instr, make(chan value, asInt64(fr.get(instr.Size))))

	case *ssa.Alloc:
		var addr *value
		if instr.Heap {
			// new
			addr = new(value)
			fr.set(instr, addr)
		} else {
			// local
			addr = fr.regs[fr.info.idx[instr]].(*value)
		}
		*addr = zero(mustDeref(instr.Type()))

	case *ssa.MakeSlice:
		capv := fr.i.concInt(fr.get(instr.Cap), 0, 64, instr.Pos(), "makeslice: cap")
		lenv := fr.i.concInt(fr.get(instr.Len), 0, 64, instr.Pos(), "makeslice: len")
		if lenv < 0 || capv < lenv || capv > 1<<24 {
			panic(fr.i.runtimeError("makeslice: len out of range"))
		}
		slice := make([]value, capv)
		tElt := instr.Type().Underlying().(*types.Slice).Elem()
		for i := range slice {
			slice[i] = zero(tElt)
		}
		fr.set(instr, slice[:lenv])

	case *ssa.MakeMap:
		var reserve int64
		if instr.Reserve != nil {
			reserve = asInt64(fr.get(instr.Reserve))
		}
		if !fitsInt(reserve, fr.i.sizes) {
			panic(fmt.Sprintf("ssa.MakeMap.Reserve value %d does not fit in int", reserve))
		}
		fr.set(instr, makeMap(instr.Type().Underlying().(*types.Map).Key(), reserve))

	case *ssa.Range:
		fr.set(instr, rangeIter(fr, fr.get(instr.X)))

	case *ssa.Next:
		fr.set(instr, fr.get(instr.Iter).(iter).next())

	case *ssa.FieldAddr:
		switch x := fr.get(instr.X).(type) {
		case *value:
			if x == nil {
				panic(fr.i.runtimeError("invalid memory address or nil pointer dereference"))
			}
			fr.set(instr, &(*x).(structure)[instr.Field])
		case symptr:
			fr.set(instr, symptr{base: x.base, idx: x.idx, path: append(append([]int{}, x.path...), instr.Field)})
		default:
			panic(fmt.Sprintf("unexpected x type in FieldAddr: %T", x))
		}

	case *ssa.Field:
		fr.set(instr, fr.get(instr.X).(structure)[instr.Field])

	case *ssa.IndexAddr:
		fr.set(instr, fr.i.indexAddr(fr, fr.get(instr.X), fr.get(instr.Index), instr.Index.Type(), instr.Pos()))

	case *ssa.Index:
		fr.set(instr, fr.i.index(fr, fr.get(instr.X), fr.get(instr.Index), instr.Index.Type(), instr.Pos()))

	case *ssa.Lookup:
		fr.set(instr, lookup(fr, instr, fr.get(instr.X), fr.get(instr.Index)))

	case *ssa.MapUpdate:
		m := fr.get(instr.Map)
		key := fr.get(instr.Key)
		v := fr.get(instr.Value)
		switch m := m.(type) {
		case *omap:
			m.insert(fr, key, v)
		default:
			panic(fmt.Sprintf("illegal map type: %T", m))
		}

	case *ssa.TypeAssert:
		fr.set(instr, typeAssert(fr, instr, fr.get(instr.X).(iface)))

	case *ssa.MakeClosure:
		var bindings []value
		for _, binding := range instr.Bindings {
			bindings = append(bindings, fr.get(binding))
		}
		fr.set(instr, &closure{instr.Fn.(*ssa.Function), bindings})

	case *ssa.Phi:
		panic("unreachable") // phis are processed at block entry

	case *ssa.Select:
		var cases []reflect.SelectCase
		if !instr.Blocking {
			cases = append(cases, reflect.SelectCase{
				Dir: reflect.SelectDefault,
			})
		}
		for _, state := range instr.States {
			var dir reflect.SelectDir
			if state.Dir == types.RecvOnly {
				dir = reflect.SelectRecv
			} else {
				dir = reflect.SelectSend
			}
			var send reflect.Value
			if state.Send != nil {
				send = reflect.ValueOf(fr.get(state.Send))
			}
			cases = append(cases, reflect.SelectCase{
				Dir:  dir,
				Chan: reflect.ValueOf(fr.get(state.Chan)),
				Send: send,
			})
		}
		chosen, recv, recvOk := reflect.Select(cases)
		if !instr.Blocking {
			chosen-- // default case should have index -1.
		}
		r := tuple{chosen, recvOk}
		for i, st := range instr.States {
			if st.Dir == types.RecvOnly {
				var v value
				if i == chosen && recvOk {
					// No need to copy since send makes an unaliased copy.
					v = recv.Interface().(value)
				} else {
					v = zero(st.Chan.Type().Underlying().(*types.Chan).Elem())
				}
				r = append(r, v)
			}
		}
		fr.set(instr, r)

	default:
		panic(fmt.Sprintf("unexpected instruction: %T", instr))
	}

	// if val, ok := instr.(ssa.Value); ok {
	// 	fmt.Println(toString(fr.env[val])) // debugging
	// }

	return kNext
}

// prepareCall determines the function value and argument values for a
// function call in a Call, Go or Defer instruction, performing
// interface method lookup if needed.
func prepareCall(fr *frame, call *ssa.CallCommon) (fn value, args []value) {
	v := fr.get(call.Value)
	if call.Method == nil {
		// Function call.
		fn = v
	} else {
		// Interface method invocation.
		recv := v.(iface)
		if recv.t == nil {
			panic(fr.i.runtimeError("invalid memory address or nil pointer dereference (method on nil interface)"))
		}
		if f := lookupMethod(fr.i, recv.t, call.Method); f == nil {
			// Unreachable in well-typed programs.
			panic(fmt.Sprintf("method set for dynamic type %v does not contain %s", recv.t, call.Method))
		} else {
			fn = f
		}
		args = append(args, recv.v)
	}
	for _, arg := range call.Args {
		args = append(args, fr.get(arg))
	}
	return
}

// call interprets a call to a function (function, builtin or closure)
// fn with arguments args, returning its result.
// callpos is the position of the callsite.
func call(i *interpreter, caller *frame, callpos token.Pos, fn value, args []value) value {
	switch fn := fn.(type) {
	case *ssa.Function:
		if fn == nil {
			panic(i.runtimeError("invalid memory address or nil pointer dereference (nil func)"))
		}
		return callSSA(i, caller, callpos, fn, args, nil)
	case *closure:
		return callSSA(i, caller, callpos, fn.Fn, args, fn.Env)
	case *ssa.Builtin:
		return callBuiltin(caller, fn, args, callpos)
	case *hostFunc:
		return fn.fn(caller, args)
	}
	panic(fmt.Sprintf("cannot call %T", fn))
}

func loc(fset *token.FileSet, pos token.Pos) string {
	if pos == token.NoPos {
		return ""
	}
	return " at " + fset.Position(pos).String()
}

// callSSA interprets a call to function fn with arguments args,
// and lexical environment env, returning its result.
// callpos is the position of the callsite.
func callSSA(i *interpreter, caller *frame, callpos token.Pos, fn *ssa.Function, args []value, env []value) value {
	if i.mode&EnableTracing != 0 {
		fset := fn.Prog.Fset
		fmt.Fprintf(os.Stderr, "Entering %s%s.\n", fn, loc(fset, fn.Pos()))
		suffix := ""
		if caller != nil {
			suffix = ", resuming " + caller.fn.String() + loc(fset, callpos)
		}
		defer fmt.Fprintf(os.Stderr, "Leaving %s%s.\n", fn, suffix)
	}
	fr := &frame{
		i:      i,
		caller: caller, // for panic/recover
		fn:     fn,
	}
	if ext, ok := i.externalFor(fn); ok {
		if ext == nil {
			return nil // skipped (e.g. package initializer not on the allow-list)
		}
		return ext(fr, args)
	}
	if fn.Pkg != nil && fn.Pkg.Pkg.Path() == "strconv" {
		if i.formatOpaque {
			if v, ok := opaqueFormat(fn, args); ok {
				return v
			}
		}
		if v, ok := i.symDecimal(fr, fn, args); ok {
			return v
		}
	}
	if fn.Blocks == nil {
		unsupported("no code for function: %s", fn.String())
	}
	if i.funcsSeen != nil && !i.funcsSeen[fn] {
		i.funcsSeen[fn] = true
	}

	// generic function body?
	if fn.TypeParams().Len() > 0 && len(fn.TypeArgs()) == 0 {
		panic("interp requires ssa.BuilderMode to include InstantiateGenerics to execute generics")
	}

	fr.info = i.infoFor(fn)
	fr.regs = make([]value, fr.info.n)
	fr.block = fn.Blocks[0]
	fr.locals = make([]value, len(fn.Locals))
	for i, l := range fn.Locals {
		fr.locals[i] = zero(mustDeref(l.Type()))
		fr.regs[fr.info.idx[l]] = &fr.locals[i]
	}
	for i, p := range fn.Params {
		fr.regs[fr.info.idx[p]] = args[i]
	}
	for i, fv := range fn.FreeVars {
		fr.regs[fr.info.idx[fv]] = env[i]
	}
	saved := i.cur
	i.cur = fr
	for fr.block != nil {
		runFrame(fr)
	}
	i.cur = saved
	return fr.result
}

// isEngineAbort reports whether a recovered host panic value must not be
// visible to the target program (path aborts, engine faults).
func isEngineAbort(p any) bool {
	switch p.(type) {
	case pathAbort, engineFault:
		return true
	}
	return false
}

type engineFault struct {
	msg   string
	stack string
}

// runFrame executes SSA instructions starting at fr.block and
// continuing until a return, a panic, or a recovered panic.
func runFrame(fr *frame) {
	defer func() {
		if fr.block == nil {
			return // normal return
		}
		p := recover()
		switch q := p.(type) {
		case pathAbort, engineFault:
			panic(p)
		case targetPanic, exitPanic:
		default:
			// Anything else is a fault of the engine itself (a host
			// run-time error or an explicit panic(string) of the
			// interpreter): never let the target program recover it.
			buf := make([]byte, 1<<14)
			n := runtime.Stack(buf, false)
			where := ""
			if fr.fn != nil {
				where = fr.fn.String()
			}
			panic(engineFault{fmt.Sprintf("%v [in %s]", q, where), string(buf[:n])})
		}
		fr.panicking = true
		fr.panic = p
		if fr.i.mode&EnableTracing != 0 {
			fmt.Fprintf(os.Stderr, "Panicking: %T %v.\n", fr.panic, fr.panic)
		}
		fr.runDefers()
		fr.block = fr.fn.Recover
	}()

	i := fr.i
	for {
		nonPhis := executePhis(fr)
		i.steps += int64(len(nonPhis))
		if i.steps > i.maxSteps {
			panic(pathAbort{abBudget, "step budget exhausted"})
		}
		for _, instr := range nonPhis {
			if i.mode&EnableTracing != 0 {
				if v, ok := instr.(ssa.Value); ok {
					fmt.Fprintln(os.Stderr, "\t", v.Name(), "=", instr)
				} else {
					fmt.Fprintln(os.Stderr, "\t", instr)
				}
			}
			fr.curInstr = instr
			if visitInstr(fr, instr) == kReturn {
				return
			}
			// Inv: kNext (continue) or kJump (last instr)
		}
	}
}

// executePhis executes the phi-nodes at the start of the current
// block and returns the non-phi instructions.
func executePhis(fr *frame) []ssa.Instruction {
	firstNonPhi := -1
	for i, instr := range fr.block.Instrs {
		if _, ok := instr.(*ssa.Phi); !ok {
			firstNonPhi = i
			break
		}
	}
	// Inv: 0 <= firstNonPhi; every block contains a non-phi.

	nonPhis := fr.block.Instrs[firstNonPhi:]
	if firstNonPhi > 0 {
		phis := fr.block.Instrs[:firstNonPhi]
		// Execute parallel assignment of phis.
		//
		// See "the swap problem" in Briggs et al's "Practical Improvements
		// to the Construction and Destruction of SSA Form" for discussion.
		predIndex := slices.Index(fr.block.Preds, fr.prevBlock)
		fr.phitemps = fr.phitemps[:0]
		for _, phi := range phis {
			phi := phi.(*ssa.Phi)
			if fr.i.mode&EnableTracing != 0 {
				fmt.Fprintln(os.Stderr, "\t", phi.Name(), "=", phi)
			}
			fr.phitemps = append(fr.phitemps, fr.get(phi.Edges[predIndex]))
		}
		for i, phi := range phis {
			fr.set(phi.(*ssa.Phi), fr.phitemps[i])
		}
	}
	return nonPhis
}

// doRecover implements the recover() built-in.
func doRecover(caller *frame) value {
	// recover() must be exactly one level beneath the deferred
	// function (two levels beneath the panicking function) to
	// have any effect.  Thus we ignore both "defer recover()" and
	// "defer f() -> g() -> recover()".
	if caller.i.mode&DisableRecover == 0 &&
		caller != nil && !caller.panicking &&
		caller.caller != nil && caller.caller.panicking {
		caller.caller.panicking = false
		p := caller.caller.panic
		caller.caller.panic = nil

		// TODO(adonovan): support runtime.Goexit.
		switch p := p.(type) {
		case targetPanic:
			// The target program panicked (explicitly or through a
			// run-time error raised by the engine on its behalf).
			return p.v
		default:
			panic(engineFault{fmt.Sprintf("unexpected panic type %T in target call to recover()", p), ""})
		}
	}
	return iface{}
}

