#!/usr/bin/env python3
"""Regenerates MANIFEST.json from the table below (keeps it valid and in step with ./check)."""
import json, os
VERIF = os.path.dirname(os.path.abspath(__file__))

CLAIMED = {
 "C07": ("Bounded symbolic execution of the real go/ssa of Compare/CompareFunction/NumericDo/IntegerDo through the generator and VM with full-width symbolic operands: each type-pair/operator cell is decided by the SMT solver (cvc5, FP theory) for all 2^128 operand pairs rather than for a grid. Bounded only in shape (binary calls, listed operators).",
         "symbolic execution of go/ssa + SMT (bit-vectors, IEEE floating point); solver verdict over all operand values", "DESIGN.md §6 C07"),
 "C14": ("Bounded symbolic execution of HashSet/HashDelete/HashGet/HashGetDefault/HashPairi/HashCountKeys/keys/len through the script-level builtins: operation sequences from the empty hash (3 ops quick, 4 thorough) with case-split operation codes and key kinds and symbolic key/value payloads, so the solver chooses which keys are equal or collide; every observable is compared with an ordered-map model after every step.",
         "symbolic execution of go/ssa + SMT (bit-vectors); symbolic keys so aliasing/collision patterns are solver-chosen", "DESIGN.md §6 C14"),
 "C19": ("One MakeSymbol/GenSymbol step from an arbitrary (havocked) symbol table satisfying the bijection invariant with an unrelated counter - covers histories of any length that preserve the invariant - plus bounded family histories (make/gensym/duplicate/clone) over symbolic names; name bytes, numbers and the counter are SMT variables.",
         "symbolic execution of go/ssa + SMT; inductive step from an arbitrary valid table, symbolic name bytes", "DESIGN.md §6 C19"),
 "C01": ("Bounded symbolic execution of the real entry points: (S) Stack.Get/Pop/GetExpressions/PopExpressions from stacks of 0-3 elements with a symbolic count; (G) every form (head args...) over 38 heads (all special forms, panicking builtins, a user function, an unbound name) x 12 argument shapes x <=2 (quick) / <=3 (thorough) arguments through Generate and Run; (T) every byte string of length <=2 (quick) / <=3 (thorough) through EvalString. A Go panic escaping the entry point is the violation; the solver decides every data-dependent branch, so each path stands for a class of inputs.",
         "symbolic execution of go/ssa + SMT; symbolic text bytes and operands, case-split program shapes", "DESIGN.md §6 C01"),
 "C13": ("Bounded symbolic execution of Lexer/Parser: (H) the lexer with every scalar of its state havocked (vHavoc) reads each text of <=2 (quick) / <=3 (thorough) symbolic bytes exactly like a fresh one - an inductive step over all parse histories; (second parse) the same through the API with an arbitrary first text; (K) text of 2..3 (4) symbolic bytes delivered whole vs cut at every position with the parser pausing in between; (L) the last token of a text is not lost.",
         "symbolic execution of go/ssa + SMT; havocked (arbitrary) lexer pre-state, regex cascade encoded as NFA terms over symbolic runes", "DESIGN.md §6 C13"),
 "C02": ("Differential symbolic execution: programs from a bounded grammar (expressions of depth<=1 quick / <=2 thorough; every form with a nested expression in every operand position; 8 loop shapes with plain/labelled break/continue and symbolic bounds; 10 call shapes incl. variadic, recursion, apply, map, closures) run through the real Generator+VM and through a reference evaluator in the harness; value, error-ness and the trace of a host function registered through AddFunction are compared, operands symbolic so every control path of each shape is covered.",
         "symbolic execution of go/ssa + SMT; differential against a reference evaluator, shapes case-split, operands and control paths solver-decided", "DESIGN.md §6 C02"),
 "C04": ("The C02 program shapes evaluated form by form: after every successful evaluation the depths of the four VM stacks are asserted at rest on every control path (symbolic operands), evaluating \"\" afterwards returns nil, and one-at-a-time vs (begin ...) evaluation agree. The same for 47 programs of the full surface language in the standard setup (struct, var, func, method, interface, package, macros, multiple assignment, range, infix blocks with if/else and go-style for, eval-style builtins) with symbolic operands and loop bounds, form by form and repeated three times in one long-lived interpreter (idle growth).",
         "symbolic execution of go/ssa + SMT; stack-depth assertions on every solver-feasible control path", "DESIGN.md §6 C04"),
 "C05": ("Failure injection with solver-chosen failure points: the k-th call of a host function fails (error return or Go panic) iff a symbolic Bool says so, for every k, in the C02 expression/loop/call shapes; a malformed special form at 16 evaluated positions. Asserted: the failure is reported, the four stacks are at rest, definitions completed before the failure are intact and nothing else leaked, follow-up evaluations work.",
         "symbolic execution of go/ssa + SMT; symbolic failure plan (fail_k Bool per host call)", "DESIGN.md §6 C05"),
 "C03": ("Differential symbolic execution against a reference evaluator with static environments: 18 scoping programs (capture, sharing between closures of one activation, fresh variables per activation, shadowing, closures stored in data/returned/passed, tail vs non-tail calls) with symbolic operands, plus grammar-generated function bodies over the two-name pool {x,y} (depth<=1 quick / <=2 thorough: ~230k programs) placed in a function called from a shadowing scope and in a closure returned by its creator.",
         "symbolic execution of go/ssa + SMT; differential against a reference evaluator, grammar case-split, operands symbolic", "DESIGN.md §6 C03"),
 "C09": ("(space) inductive step: every self tail call under <=2 nested tail contexts (9x9 wrappers: begin, let, letseq, newScope, and, or, cond, let+def) is entered with a symbolic counter>=3 and accumulator; the four stack depths sampled by a host function at consecutive arrivals are equal, i.e. one trip round the back edge from an arbitrary state grows no stack. (invisible) the same shapes with a body that defines a local and captures it in a closure before the tail call, n in 0..3, against the reference evaluator which has no such optimisation.",
         "symbolic execution of go/ssa + SMT; one inductive trip with symbolic counter, differential for invisibility", "DESIGN.md §6 C09"),
 "C15": ("(templates) syntax-quoted lists/arrays of 1..3 elements (depth 0 quick / 1 thorough) over {literal, symbol, ~v, ~@l, ~(+ v 1), nested list, nested array} with v symbolic and l of case-split length 0..2 with symbolic elements: the value computed by the real compiler/VM equals an independent substitution function; (macros) 7 macros x 5 call sites: value and effect trace equal the hand-written expansion, caller's stacks at rest.",
         "symbolic execution of go/ssa + SMT; differential against a substitution oracle, template shapes case-split", "DESIGN.md §6 C15"),
 "C16": ("10 function bodies mixing lazy (#p), strict and variadic parameters (never forced, forced once/twice, forced on one control path, substitute, forced after the caller returned, two lazy forced in reverse order) x 8 call routes (name, alias, parameter, computed callee, apply, same-named caller locals, caller-local reference, extra argument), argument expressions are calls of the host trace function with symbolic values: value, error-ness and trace (which arguments were evaluated, how often, in what order) equal the reference evaluator (memoised thunks closed over the caller's frame); a probe function checks a strict function never receives an unevaluated argument on 7 routes.",
         "symbolic execution of go/ssa + SMT; differential against a reference evaluator with memoised thunks", "DESIGN.md §6 C16"),
 "C06": ("(algorithm) operators installed with *symbolic* binding powers (1..2^20) and case-split associativity: the tree built by the real Pratt loop (InfixExpandArray/Expression/LeftBindingPower) for a op1 b op2 c (op3 d) equals an independent weakest-operator-is-root specification for every table - the solver enumerates the order types; (table) every ordered pair of the 17 documented binary operators parses to the tree the documented levels/associativity determine; (meaning) {a op b op' c} evaluates to the value of that prefix form for symbolic operands, statements run in order and the block's value is the last statement's.",
         "symbolic execution of go/ssa + SMT; symbolic binding powers (all precedence tables), differential against a root-splitting specification", "DESIGN.md §6 C06"),
 "C08": ("Bounded exhaustive case split executed by the symbolic engine with the OS boundary intercepted: in a bare sandbox and in sandbox+StandardSetup, every global binding, builtin, macro and special-form name (141 / 206 names) is called with 0..1 (quick) / 0..2 (thorough) arguments from 7 canary shapes; every function of os, os/exec, syscall, io/ioutil, net is an effect marker in the engine and the effect log must show no canary file read, no process start, no file creation, no environment access, no exit. The solver has no work here (no symbolic data); the technique's contribution is the interception on all paths of each callee and the native replay with real canary files.",
         "symbolic-execution engine with OS-boundary effect markers; bounded exhaustive case split (no solver queries)", "DESIGN.md §6 C08"),
 "C12": ("print->read round trips with symbolic data through the real printers (strconv.Quote/QuoteRune/Itoa interpreted or modelled) and the real lexer/parser: every char below U+0250 (quick) / U+1000 (thorough), every string of 1 (quick) / 2 (thorough) such runes, ints of up to 5 / 9 digits, numeric literal spellings of up to 3 symbolic digits in decimal (with underscore), hex, octal, binary, ULL and signed form against a Horner evaluation, lists/arrays of atoms.",
         "symbolic execution of go/ssa + SMT; symbolic runes/digits through printer and reader", "DESIGN.md §6 C12"),
 "C11": ("Encoder leg: the text produced by the real SexpToJson/jsonHashHelper/jsonArrayHelper for strings containing a symbolic rune (below U+0250 quick / U+3000 thorough), ints, bools, nil, arrays, hashes with symbol keys, string keys and symbolic-rune string keys, nested hashes, is parsed by an RFC 8259 reader written in the harness: it must be well-formed and denote the same data (type name, keys in order, zKeyOrder, values).",
         "symbolic execution of go/ssa + SMT; symbolic runes through the encoder and a reference JSON reader", "DESIGN.md §6 C11"),
 "C17": ("Struct declared through the real struct builder, then every field x 6 value kinds x 4 write routes (hset, set dot-path, infix dot assignment, constructor) and 19 scripted programs incl. redeclaration in between: a write is accepted iff the value's kind is the field's declared type; a rejected write reports an error and leaves the instance (fields, values, key count) unchanged. Payloads symbolic, shapes case-split (the solver has little to decide here).",
         "symbolic-execution engine, bounded case split over field x kind x route; symbolic payloads", "DESIGN.md §6 C17"),
 "C18": ("Packages nested to depth 2 built by the real package form with a member whose first rune is *symbolic* (below U+0250 quick / U+3000 thorough), member kinds value/function/hash/nested package, get and set routes through the real path walker: lower-case first rune (unicode.IsLower, interpreted) => denied and unchanged, upper-case => granted, nested packages traversable; plus 18 script-level programs (aliases, set, functions defined inside, package->package->hash paths).",
         "symbolic execution of go/ssa + SMT; symbolic first rune of member names through the real walkers and unicode tables", "DESIGN.md §6 C18"),
 "C20": ("Nondeterministic map-order mode of the engine: every range over a Go map of <=3 entries visits a case-split permutation, larger maps are walked forwards and backwards. Symbol numbering by NewZlispWithFuncs and by the standard setup of a sandbox (observed through symbol comparison over 32 names), the same program in three successive fresh interpreters of one process (16 programs: value and error text), the decode leg of JSON/msgpack (makeSortedSlicesFromMap/decodeGoToSexpHelper) and evaluation/printing of small hashes and scopes are run in insertion order and in every other order and must print the same. Natively the replay repeats the scenario 200 times (the runtime randomises the order).",
         "symbolic-execution engine with map iteration order as a case-split nondeterministic choice", "DESIGN.md §6 C20"),
}
NA = {
 "C10": "record<->Go struct conversion is a reflect walk (runtime/unsafe code, no SSA to execute); a model of reflect faithful enough to judge it would itself be the thing under test",
}
ALL = ["C%02d" % i for i in range(1, 21)]
PENDING = "harness not built yet in this session (solver-based check planned, see DESIGN.md §6); not claimed until it runs clean"

checks = []
for pid in ALL:
    if pid in CLAIMED:
        text, tech, ref = CLAIMED[pid]
        checks.append({
            "property_id": pid,
            "quick_cmd": "./check %s --tier quick" % pid,
            "thorough_cmd": "./check %s --tier thorough" % pid,
            "evidence_file": "/verif/evidence/%s.json" % pid,
            "replay_cmd_template": "./check %s --replay {path}" % pid,
            "engine": "gosym",
            "level_claimed": {"category": "model_checking", "text": text, "design_ref": ref},
            "level_note": "Trusted: the gosym engine (symbolic fork of x/tools go/ssa/interp) and its SMT encoding, the solver (z3 4.8.12 / cvc5 1.0), the engine's models of fmt/regexp/bytealg/sync/time, and the oracle written in the harness. Bounded: see evidence.coverage.bounds. Counterexamples are replayed against the native build before being reported; conformance vectors are run in the engine's concrete mode and natively and must agree.",
            "technique": tech,
        })
na = [{"property_id": p, "reason": NA.get(p, PENDING)} for p in ALL if p not in CLAIMED]
man = {
 "version": 1,
 "setup_cmd": "/verif/build.sh",
 "hooks": {
  "guard": "verif",
  "enable": "harness files (//go:build verif, package zygo) are injected by overlay only: gosym loads /repo/zygo with -tags verif through packages.Config.Overlay; native replays use go test -tags verif -overlay. Nothing is committed to /repo for instrumentation.",
  "baseline_off_cmd": "cd /repo && go test -mod=mod -json -vet=off -count=1 -timeout 25m ./...",
  "source_commits": [],
  "add_only": True,
 },
 "engines": [{
  "name": "gosym", "path": "/verif/engine", "serves_properties": sorted(CLAIMED),
  "kind_free_text": "symbolic executor for go/ssa (fork of x/tools go/ssa/interp v0.50.0): scalars may be SMT terms (bit-vectors, IEEE doubles, Bools), strings with symbolic bytes, deterministic maps with symbolic keys, undo-journal heap, re-execution path scheduler, z3/cvc5 over SMT-LIB2 pipes; native replay of counterexamples through go test -overlay",
 }],
 "checks": checks,
 "not_applicable": na,
 "notes": "All checks: ./check <id> --tier quick|thorough; exit 0 held / 1 VIOLATION (replayed natively) / 2 machinery failure. Genuine defects found and repaired are recorded as 'fixed:' lines in known_findings.jsonl.",
}
json.dump(man, open(os.path.join(VERIF, "MANIFEST.json"), "w"), indent=1)
print("claimed:", sorted(CLAIMED))
