#!/bin/sh
# runs the repository's own test suite and its tests/*.zy scripts on /repo (or $1)
R=${1:-/repo}
export GOFLAGS=-mod=mod GOPROXY=off
cd $R && go build ./zygo/... ./cmd/... || exit 1
(cd $R && go test -vet=off -count=1 -timeout 25m ./... 2>&1 | tail -8)
T=$(mktemp -d /tmp/zyg.XXXX)
(cd $R/cmd/zygo && go build -o $T/zygo . ) || exit 1
fail=0
for f in $R/tests/*.zy; do
  (cd $R && timeout 60 $T/zygo -demo -exitonfail $f >/dev/null 2>&1) || { echo "SCRIPT FAIL $f"; fail=1; }
done
rm -rf $T
echo "scripts fail=$fail"
