#!/bin/sh
# tools/seedharvest.sh <worktree> <seed-id> : copy a sub-agent's deliverables into seeded/<seed-id>/ and confirm them
set -u
wt="$1"; id="$2"
d=/verif/seeded/$id
mkdir -p "$d"
cp "$wt/SEED_patch.diff" "$d/patch.diff" || exit 2
cp "$wt/SEED_demo_test.go" "$d/demo_test.go.txt" || exit 2
cp "$wt/SEED_meta.json" "$d/meta.json" || exit 2
echo "$id: $(/verif/tools/seedverify.sh "$d")"
