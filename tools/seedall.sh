#!/bin/sh
# tools/seedall.sh : every seeded change against the check of the property it breaks
here="$(cd "$(dirname "$0")/.." && pwd)"
for d in "$here"/seeded/*/; do
  id=$(basename "$d")
  p=${id%%-*}
  "$here/tools/seedrun2.sh" "$d" "$p"
done
