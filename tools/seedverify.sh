#!/bin/sh
# tools/seedverify.sh <seed-dir> : confirm a seeded change in a scratch worktree of /repo:
# applies, builds, existing suite passes, demo fails with it, demo passes without it.
set -u
d="$1"
wt=/tmp/wt/verify-$$
git -C /repo worktree add -q --detach "$wt" HEAD || exit 2
cd "$wt" || exit 2
res=""
git apply "$d/patch.diff" || res="patch-does-not-apply"
if [ -z "$res" ]; then
  (cd zygo && go build ./... ) >/dev/null 2>&1 || res="does-not-build"
fi
if [ -z "$res" ]; then
  (cd zygo && GOFLAGS=-mod=mod GOPROXY=off go test -vet=off -count=1 . ) >/dev/null 2>&1 || res="suite-fails-with-change"
fi
if [ -z "$res" ]; then
  cp "$d/demo_test.go.txt" zygo/zz_demo_test.go
  if (cd zygo && GOFLAGS=-mod=mod GOPROXY=off go test -vet=off -count=1 -run 'Demo|demo' . ) >/dev/null 2>&1; then res="demo-passes-with-change"; fi
  git checkout -q -- . 
  if ! (cd zygo && GOFLAGS=-mod=mod GOPROXY=off go test -vet=off -count=1 -run 'Demo|demo' . ) >/dev/null 2>&1; then res="${res:+$res,}demo-fails-without-change"; fi
fi
cd /
git -C /repo worktree remove --force "$wt"
echo "${res:-confirmed}"
