#!/bin/sh
# tools/seedrun2.sh <seed-dir> <property>... : run the quick checks against a scratch worktree of /repo
# with the seeded change applied (VERIF_REPO), leaving /repo and /verif/evidence untouched.
set -u
d="$1"; shift
wt=/tmp/wt/seedrepo-$$
git -C /repo worktree add -q --detach "$wt" HEAD || exit 2
( cd "$wt" && git apply "$d/patch.diff" ) || { echo "patch does not apply"; git -C /repo worktree remove --force "$wt"; exit 2; }
for p in "$@"; do
  out=$(cd /verif && VERIF_REPO="$wt" VERIF_OUT_DIR=/tmp/wt/seedout-$$ ./check "$p" --tier ${TIER:-quick} 2>/dev/null | grep "^OK\|^VIOLATION\|^ENGINE-ERROR\|^KNOWN" | sort -r | head -4)
  echo "== $(basename $d) $p: $(echo "$out" | head -3 | cut -c1-260)"
done
git -C /repo worktree remove --force "$wt"
rm -rf /tmp/wt/seedout-$$
