#!/bin/sh
# tools/seedrun2.sh <seed-dir> <property>... : run the quick checks against a scratch worktree of /repo
# with the seeded change applied (VERIF_REPO), leaving /repo and the committed evidence untouched.
set -u
here="$(cd "$(dirname "$0")/.." && pwd)"
d="$(cd "$1" && pwd)"; shift
wt=/tmp/wt/seedrepo-$$
mkdir -p /tmp/wt
git -C /repo worktree add -q --detach "$wt" HEAD || exit 2
( cd "$wt" && git apply "$d/patch.diff" ) || { echo "== $(basename $d): patch does not apply"; git -C /repo worktree remove --force "$wt"; exit 2; }
# a private copy of the harness files: they may be edited while this runs
hz=/tmp/wt/seedharness-$$
rm -rf "$hz"; cp -r "$here/harness" "$hz"
for p in "$@"; do
  out=$(cd "$here" && VERIF_REPO="$wt" VERIF_HARNESS="$hz" VERIF_OUT_DIR=/tmp/wt/seedout-$$ ./check "$p" --tier ${TIER:-quick} 2>/dev/null | grep "^OK\|^VIOLATION\|^ENGINE-ERROR\|^KNOWN" | sort -r | head -3)
  verdict=MISSED
  echo "$out" | grep -q "^VIOLATION" && verdict=DETECTED
  echo "== $(basename $d) $p $verdict: $(echo "$out" | head -2 | cut -c1-160 | tr '\n' ' ')"
done
git -C /repo worktree remove --force "$wt"
rm -rf /tmp/wt/seedout-$$ "$hz"
