#!/bin/sh
# tools/seedrun.sh <patch.diff> <property>... : apply a seeded change to /repo, run the quick checks, undo it.
# (never commits anything in /repo)
set -u
patch="$1"; shift
cd /repo || exit 2
if ! git diff --quiet; then echo "/repo has uncommitted changes"; exit 2; fi
git apply "$patch" || { echo "patch does not apply"; exit 2; }
( cd /repo/zygo && go build ./... ) || { git checkout -- .; echo "does not build"; exit 2; }
for p in "$@"; do
  out=$(cd /verif && ./check "$p" --tier quick 2>/dev/null | grep "^OK\|^VIOLATION\|^ENGINE-ERROR\|^KNOWN" | head -4)
  echo "== $p: $(echo "$out" | head -3 | cut -c1-220)"
done
git -C /repo checkout -- .
git -C /repo status --short | head -3
