#!/bin/sh
# builds /verif/bin/gosym from /verif/engine, offline
set -e
cd /verif/engine
export GOFLAGS=-mod=mod GOPROXY=off GOTOOLCHAIN=local
mkdir -p /verif/bin
go1.26.8 build -o /verif/bin/gosym ./cmd/gosym
