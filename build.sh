#!/bin/sh
# builds bin/gosym (next to this script) from engine/, offline
set -e
here="$(cd "$(dirname "$0")" && pwd)"
cd "$here/engine"
export GOFLAGS=-mod=mod GOPROXY=off GOTOOLCHAIN=local
mkdir -p "$here/bin"
go1.26.8 build -o "$here/bin/gosym" ./cmd/gosym
